------------------------------ MODULE MultiSource ------------------------------
(***************************************************************************)
(* C18 REFERENCE: dependency tracking of a MultiSource job.                *)
(* The job reads the changes of its main dataset; in addition, for every    *)
(* dependency (a dataset plus a join path back to the main dataset, given   *)
(* explicitly or implied by a longer path) it follows the path from every   *)
(* entity that changed in the dependency dataset and re-emits the main      *)
(* entities it reaches.                                                     *)
(* CatchUp is one "run the job until its continuation tokens stop moving"   *)
(* (no writes in between).  The reference requires of the union of what the *)
(* runs emit:                                                               *)
(*   Required  \subseteq  emitted  \subseteq  ids of the main dataset       *)
(* where Required = ids changed in main  \cup  the live main entities       *)
(* reached through the join path, on the graph as it stands now, from the   *)
(* ids changed in each dependency since its token -- the first hop of a     *)
(* forward (non-inverse) first join is also evaluated on the graph as it    *)
(* stood at the change just before the consumed slice (a link that was      *)
(* removed by the change must still lead to the entity that lost it).       *)
(* Afterwards every token stands at the end of its feed.  The very first    *)
(* catch-up is a full read of main that only records where the dependency   *)
(* feeds end.                                                               *)
(***************************************************************************)
EXTENDS Datahub

CONSTANTS MsMain,    \* name of the main dataset
          MsExplicit,\* the dependencies as declared in the job configuration (told to the harness)
          MsDeps     \* tuple of [ds, joins] with joins a tuple of [ds, pred, inv] (explicit and implied dependencies)

VARIABLES msMainTok, msDepTok, msFirst,
          msFs     \* the first (full) run read page by page: [on, pos (main position read so far), dep (dependency
                   \* watermarks taken when it started)]; writes may happen between its pages
mvars == <<vars, msMainTok, msDepTok, msFirst, msFs>>
mview == <<view, msMainTok, msDepTok, msFirst, msFs>>
FsOff == [on |-> FALSE, pos |-> 0, dep |-> <<>>]

DepNames == { MsDeps[k].ds : k \in 1..Len(MsDeps) }

\* one hop from the set S of entity ids
Hop(S, j, prev, t) ==
  LET scope == {prev, j.ds}
  IN IF j.inv THEN { s \in Ent : \E o \in S : <<j.pred, s>> \in In(o, j.pred, scope, t) }
              ELSE { o \in Ent : \E s \in S : <<j.pred, o>> \in Out(s, j.pred, scope, t) }

RECURSIVE Follow(_, _, _, _, _)
Follow(S, joins, k, prev, t) ==
  IF k > Len(joins) THEN S ELSE Follow(Hop(S, joins[k], prev, t), joins, k + 1, joins[k].ds, t)

\* ids changed in feed f at positions >= tok
ChangedIn(f, tok) == { f[i].e : i \in { x \in 1..Len(f) : f[x].pos >= tok } }
\* commit instant of the change just before position tok (0 if none)
PrevTime(f, tok) == LET I == { i \in 1..Len(f) : f[i].pos < tok } IN IF I = {} THEN 0 ELSE f[Max(I)].t

ReachedFrom(dep, tok) ==
  LET f == F(dep.ds)
      S == ChangedIn(f, tok)
      now == Follow(S, dep.joins, 1, dep.ds, clock)
      first == dep.joins[1]
      before == IF ~first.inv /\ PrevTime(f, tok) > 0
                  THEN Follow(Hop(S, first, dep.ds, PrevTime(f, tok)), dep.joins, 2, first.ds, clock)
                  ELSE {}
  IN now \cup before

LiveInMain(e) == LET c == LatestIn(F(MsMain), e) IN c # NoV /\ ~IsDel(c)
EndOf(n) == LET f == F(n) IN IF f = <<>> THEN 0 ELSE f[Len(f)].pos + 1

\* The first run as the pipeline really performs it: the watermarks of the dependency feeds are taken once, when
\* the full sync starts; then main is read page by page (pages of one here), and other clients may write between
\* two pages.  When a page comes back empty the run ends and stores: main token = what was read, dependency
\* tokens = the watermarks of the START - whatever changed in a dependency since then belongs to the next run.
FsStart ==
  /\ "fspage" \in Acts /\ msFirst /\ ~msFs.on
  /\ Exists(MsMain) /\ \A k \in 1..Len(MsDeps) : Exists(MsDeps[k].ds)
  /\ msFs' = [on |-> TRUE, pos |-> 0, dep |-> [n \in DepNames |-> EndOf(n)]]
  /\ Log([a |-> "fsstart"])
  /\ UNCHANGED <<clock, dsInc, nextInc, deletedInc, purgedInc, feed, nextPos, everStored, metaOf, rd, bk,
                 msMainTok, msDepTok, msFirst>>
FsPage ==
  /\ "fspage" \in Acts /\ msFs.on /\ Exists(MsMain)
  /\ LET f == F(MsMain)
         I == { i \in 1..Len(f) : f[i].pos >= msFs.pos }
     IN IF I = {}
          THEN /\ msMainTok' = msFs.pos /\ msDepTok' = msFs.dep /\ msFirst' = FALSE /\ msFs' = FsOff
               /\ Log([a |-> "fsend", maintok |-> msFs.pos, deptok |-> msFs.dep])
          ELSE LET i == CHOOSE x \in I : \A y \in I : x <= y
               IN /\ msFs' = [msFs EXCEPT !.pos = f[i].pos + 1]
                  /\ Log([a |-> "fspage", required |-> {f[i].e}, allowed |-> EntsIn(f)])
                  /\ UNCHANGED <<msMainTok, msDepTok, msFirst>>
  /\ UNCHANGED <<clock, dsInc, nextInc, deletedInc, purgedInc, feed, nextPos, everStored, metaOf, rd, bk>>

CatchUp ==
  /\ "catchup" \in Acts /\ ~msFs.on
  /\ Exists(MsMain) /\ \A k \in 1..Len(MsDeps) : Exists(MsDeps[k].ds)
  /\ LET mainChanged == ChangedIn(F(MsMain), msMainTok)
         reached == IF msFirst THEN {}
                    ELSE UNION { { e \in ReachedFrom(MsDeps[k], msDepTok[MsDeps[k].ds]) : LiveInMain(e) } : k \in 1..Len(MsDeps) }
         required == mainChanged \cup reached
         newDep == [n \in DepNames |-> EndOf(n)]
     IN /\ msMainTok' = EndOf(MsMain)
        /\ msDepTok' = newDep
        /\ msFirst' = FALSE /\ UNCHANGED msFs
        /\ Log([a |-> "catchup", required |-> required, first |-> msFirst,
                allowed |-> EntsIn(F(MsMain)), maintok |-> EndOf(MsMain), deptok |-> newDep])
  /\ UNCHANGED <<clock, dsInc, nextInc, deletedInc, purgedInc, feed, nextPos, everStored, metaOf, rd, bk>>

MInit == InitCreated /\ msMainTok = 0 /\ msDepTok = [n \in DepNames |-> 0] /\ msFirst = TRUE /\ msFs = FsOff
MNext == \/ (Next /\ UNCHANGED <<msMainTok, msDepTok, msFirst, msFs>>)
         \/ (Steps < MaxSteps /\ (CatchUp \/ FsStart \/ FsPage))
MNextSample == \/ (NextSample /\ UNCHANGED <<msMainTok, msDepTok, msFirst, msFs>>)
               \/ (Steps < MaxSteps /\ (\E r \in RE(1..3) : r = 1) /\ (CatchUp \/ FsStart \/ FsPage))
MSpec == MInit /\ [][MNext]_mvars
MSpecSample == MInit /\ [][MNextSample]_mvars

MEmitHeader == PrintT(<<"MHEADER", ToJson([base |-> Header, main |-> MsMain, deps |-> MsExplicit])>>)

\* the reference's own sanity: nothing outside the main dataset is ever required
RequiredFromMain ==
  (hist' # hist /\ hist'[Len(hist')].a \in {"catchup", "fspage"}) => hist'[Len(hist')].required \subseteq hist'[Len(hist')].allowed
MsProps == [][RequiredFromMain]_mvars
=============================================================================
