-------------------------------- MODULE Locks --------------------------------
(***************************************************************************)
(* Implementation-shaped model of the write locks (C05: no deadlock).      *)
(* Every dataset has a non-reentrant write lock.                           *)
(*   batch writer on d : lock d ; commit ; lock core ; bump counter ;      *)
(*                       unlock core ; unlock d          (updateDataset    *)
(*                       stores the meta-entity through core.Dataset)      *)
(*   transaction on S  : lock the members of S in some order ; commit ;    *)
(*                       then bump one counter per member (lock core ...)  *)
(*   compactor on d    : lock d ; plan and flush ; unlock d  (fix 48437af; *)
(*                       it writes no counter)                             *)
(* AsCoded = TRUE  : members locked in ANY order (Go map iteration), the   *)
(*                   counters are bumped while the member locks are held   *)
(* AsCoded = FALSE : members locked in name order with core.Dataset last,  *)
(*                   all member locks released before the counters         *)
(* TLC's deadlock check decides; finished runs stutter in Done.            *)
(***************************************************************************)
EXTENDS Integers, Sequences, FiniteSets, TLC

CONSTANTS Procs,     \* set of process ids
          Kind,      \* [Procs -> "w" | "t" | "c"]   (batch writer, transaction, compactor)
          Targets,   \* [Procs -> tuple of lock names]; writers: one name; transactions: members in NAME ORDER, core last
          AsCoded

Core == "core"
VARIABLES owner,    \* [lock -> process or "none"]
          pc,       \* [Procs -> program counter]
          todo,     \* [Procs -> sequence of locks still to acquire in the acquisition phase]
          bumps     \* [Procs -> counters still to bump]

lvars == <<owner, pc, todo, bumps>>
LockNames == UNION { { Targets[p][i] : i \in 1..Len(Targets[p]) } : p \in Procs } \cup {Core}

Perms(s) == { q \in [1..Len(s) -> { s[i] : i \in 1..Len(s) }] : \A i, j \in 1..Len(s) : i # j => q[i] # q[j] }

Init ==
  /\ owner = [l \in LockNames |-> "none"]
  /\ pc = [p \in Procs |-> "acquire"]
  /\ todo \in [Procs -> UNION { Perms(Targets[p]) : p \in Procs }]
  /\ \A p \in Procs : todo[p] \in (IF AsCoded /\ Kind[p] = "t" THEN Perms(Targets[p]) ELSE {Targets[p]})
  /\ bumps = [p \in Procs |-> IF Kind[p] = "c" THEN 0 ELSE Len(Targets[p])]

Held(p) == { l \in LockNames : owner[l] = p }

Acquire(p) ==
  /\ pc[p] = "acquire" /\ todo[p] # <<>>
  /\ owner[Head(todo[p])] = "none"
  /\ owner' = [owner EXCEPT ![Head(todo[p])] = p]
  /\ todo' = [todo EXCEPT ![p] = Tail(@)]
  /\ UNCHANGED <<pc, bumps>>

Commit(p) ==
  /\ pc[p] = "acquire" /\ todo[p] = <<>>
  /\ IF AsCoded \/ Kind[p] = "w"
       THEN owner' = owner                                   \* counters bumped while the locks are held
       ELSE owner' = [l \in LockNames |-> IF owner[l] = p THEN "none" ELSE owner[l]]
  /\ pc' = [pc EXCEPT ![p] = "bump"]
  /\ UNCHANGED <<todo, bumps>>

\* one counter update = a nested batch write to core.Dataset (core itself has no counter)
BumpLock(p) ==
  /\ pc[p] = "bump" /\ bumps[p] > 0
  /\ owner[Core] = "none"
  /\ owner' = [owner EXCEPT ![Core] = p]
  /\ pc' = [pc EXCEPT ![p] = "bumping"]
  /\ UNCHANGED <<todo, bumps>>

\* a transaction that holds core.Dataset itself and bumps a counter waits for its own lock
BumpUnlock(p) ==
  /\ pc[p] = "bumping"
  /\ owner' = [owner EXCEPT ![Core] = "none"]
  /\ bumps' = [bumps EXCEPT ![p] = @ - 1]
  /\ pc' = [pc EXCEPT ![p] = "bump"]
  /\ UNCHANGED todo

Release(p) ==
  /\ pc[p] = "bump" /\ bumps[p] = 0
  /\ owner' = [l \in LockNames |-> IF owner[l] = p THEN "none" ELSE owner[l]]
  /\ pc' = [pc EXCEPT ![p] = "done"]
  /\ UNCHANGED <<todo, bumps>>

Done == (\A p \in Procs : pc[p] = "done") /\ UNCHANGED lvars

Next == Done \/ \E p \in Procs : Acquire(p) \/ Commit(p) \/ BumpLock(p) \/ BumpUnlock(p) \/ Release(p)
Spec == Init /\ [][Next]_lvars

MutualExclusion == \A l \in LockNames : owner[l] \in Procs \cup {"none"}
=============================================================================
