-------------------------------- MODULE Raffle --------------------------------
(***************************************************************************)
(* C11: run slots of the job runner.  A run of job j needs a ticket of its *)
(* kind (incremental / fullsync pools); a job id that is running never     *)
(* gets a second ticket.  A fullsync request that gets no ticket is queued *)
(* for ONE retry at a time; an incremental request is skipped.  Every run  *)
(* that started ends (success, failure or kill), stores a result and       *)
(* returns its ticket.                                                     *)
(* Requests come from independent triggers (cron, on-change event, manual  *)
(* run, retry timer); Kill cancels a running job.                          *)
(***************************************************************************)
EXTENDS Integers, FiniteSets, TLC

CONSTANTS Jobs, PoolI, PoolF, MaxReq

VARIABLES running,   \* set of [job, full, killed]
          ti, tf,    \* free tickets
          queued,    \* job ids with a pending fullsync retry
          results,   \* [Jobs -> number of stored results]
          started,   \* [Jobs -> number of runs started]
          reqs       \* number of requests issued (bound)

rvars == <<running, ti, tf, queued, results, started, reqs>>

RunningIds == { r.job : r \in running }

Init == running = {} /\ ti = PoolI /\ tf = PoolF /\ queued = {} /\ results = [j \in Jobs |-> 0]
        /\ started = [j \in Jobs |-> 0] /\ reqs = 0

Borrow(j, full) ==
  /\ j \notin RunningIds
  /\ IF full THEN tf > 0 ELSE ti > 0
  /\ running' = running \cup {[job |-> j, full |-> full, killed |-> FALSE]}
  /\ ti' = IF full THEN ti ELSE ti - 1
  /\ tf' = IF full THEN tf - 1 ELSE tf
  /\ started' = [started EXCEPT ![j] = @ + 1]

Request(j, full) ==
  /\ reqs < MaxReq /\ reqs' = reqs + 1
  /\ IF j \notin RunningIds /\ (IF full THEN tf > 0 ELSE ti > 0)
       THEN Borrow(j, full) /\ UNCHANGED <<queued, results>>
       ELSE /\ queued' = IF full THEN queued \cup {j} ELSE queued      \* incremental: skipped
            /\ UNCHANGED <<running, ti, tf, results, started>>

Retry(j) ==
  /\ j \in queued
  /\ queued' = queued \ {j}
  /\ IF j \notin RunningIds /\ tf > 0
       THEN Borrow(j, TRUE) /\ UNCHANGED <<results, reqs>>
       ELSE UNCHANGED <<running, ti, tf, results, started, reqs>>   \* would queue again; bounded model drops it

Kill(j) ==
  /\ \E r \in running : r.job = j /\ ~r.killed
  /\ running' = { IF r.job = j THEN [r EXCEPT !.killed = TRUE] ELSE r : r \in running }
  /\ UNCHANGED <<ti, tf, queued, results, started, reqs>>

Finish(r) ==
  /\ r \in running
  /\ running' = running \ {r}
  /\ ti' = IF r.full THEN ti ELSE ti + 1
  /\ tf' = IF r.full THEN tf + 1 ELSE tf
  /\ results' = [results EXCEPT ![r.job] = @ + 1]
  /\ UNCHANGED <<queued, started, reqs>>

Next == \/ \E j \in Jobs, f \in BOOLEAN : Request(j, f)
        \/ \E j \in Jobs : Retry(j) \/ Kill(j)
        \/ \E r \in running : Finish(r)
Spec == Init /\ [][Next]_rvars /\ \A j \in Jobs : WF_rvars(\E r \in running : r.job = j /\ Finish(r))

NoOverlap == \A a, b \in running : a.job = b.job => a = b
PoolBound == Cardinality({ r \in running : ~r.full }) <= PoolI /\ Cardinality({ r \in running : r.full }) <= PoolF
Conservation == ti + Cardinality({ r \in running : ~r.full }) = PoolI /\ tf + Cardinality({ r \in running : r.full }) = PoolF
ResultPerRun == \A j \in Jobs : results[j] + Cardinality({ r \in running : r.job = j }) = started[j]
EveryRunEnds == \A j \in Jobs : (j \in RunningIds) ~> (j \notin RunningIds)
=============================================================================
