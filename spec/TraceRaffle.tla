----------------------------- MODULE TraceRaffle -----------------------------
(***************************************************************************)
(* Trace validation for C11: events recorded from a storm of run requests  *)
(* on the real scheduler (probes inside the jobs' sources):                *)
(*   {"k":"enter","job":J,"g":run goroutine,"full":bool}  a run of J is    *)
(*        inside its source                                                *)
(*   {"k":"exit","job":J,"g":G}                                            *)
(*   {"k":"end","running":n,"ti":..,"tf":..,"results":[job,..]}            *)
(* A line is consumable iff it is allowed by the slot rules of Raffle.tla: *)
(* at most one run per job id inside at any time, at most PoolI/PoolF jobs *)
(* of a kind inside at once; at the end nothing is running, all tickets    *)
(* are back and every job that ever entered has a stored result.           *)
(***************************************************************************)
EXTENDS Integers, Sequences, FiniteSets, TLC, Json

CONSTANTS TraceFile, PoolI, PoolF
Trace == ndJsonDeserialize(TraceFile)
VARIABLES inside,   \* set of <<job, g, full>>
          ever, l
tvars == <<inside, ever, l>>
Event == Trace[l]

Step ==
  /\ l <= Len(Trace) /\ l' = l + 1
  /\ CASE Event.k = "enter" ->
            /\ \A x \in inside : x[1] = Event.job => x[2] = Event.g           \* same run re-entering is fine
            /\ LET ins == inside \cup {<<Event.job, Event.g, Event.full>>}
               IN /\ Cardinality({ x[1] : x \in { y \in ins : ~y[3] } }) <= PoolI
                  /\ Cardinality({ x[1] : x \in { y \in ins : y[3] } }) <= PoolF
                  /\ inside' = ins
            /\ ever' = ever \cup {Event.job}
       [] Event.k = "exit" ->
            /\ inside' = { x \in inside : ~(x[1] = Event.job /\ x[2] = Event.g) }
            /\ UNCHANGED ever
       [] Event.k = "end" ->
            /\ inside = {} /\ Event.running = 0 /\ Event.ti = PoolI /\ Event.tf = PoolF
            /\ \A j \in ever : \E i \in 1..Len(Event.results) : Event.results[i] = j
            /\ UNCHANGED <<inside, ever>>
  /\ TLCSet(1, l)        \* last conjunct: only a line that was consumable moves the high-water mark
Init == inside = {} /\ ever = {} /\ l = 1 /\ TLCSet(1, 0)
Spec == Init /\ [][Step]_tvars
Accepted == TLCGet(1) = Len(Trace)
=============================================================================
