-------------------------------- MODULE Rerun --------------------------------
(***************************************************************************)
(* C17, second sentence, as a state machine: the reRun error handler of    *)
(* ONE scheduled job object whose executions come from two places - the    *)
(* schedule (action Run: cron or an onchange event, at any moment, also    *)
(* while re-runs are pending) and the handler's own timers (action Wave).  *)
(*                                                                         *)
(* As coded (jobs/error_handler.go handleJobError): an execution that      *)
(* fails takes one unit of the handler's budget - if there is one left -   *)
(* and starts a timer; when the timer fires the job is executed again.     *)
(* The budget belongs to the job object, not to the chain of one failure,  *)
(* and it is taken when the re-run is SCHEDULED: that is what bounds the   *)
(* number of re-executions by maxRetries however the schedule interleaves  *)
(* with the timers.  All timers run with the same delay, so they fire in   *)
(* waves: everything pending fires (in scheduling order) before anything   *)
(* those executions schedule.                                              *)
(*                                                                         *)
(* The sink rejects the first okAfter executions (okAfter > everything:    *)
(* it never recovers).  Every execution reads the whole source (full sync  *)
(* trigger), so every execution reaches the sink.                          *)
(***************************************************************************)
EXTENDS Integers, Sequences, FiniteSets, TLC, Json

CONSTANTS MaxRetriesSet,   \* values of maxRetries (>= 1: a configured 0 means the default, 1)
          OkAfterSet,      \* the sink rejects the first okAfter executions
          MaxRuns          \* scheduled executions per behaviour

VARIABLES retries, okAfter,   \* the case
          budget,             \* what is left of maxRetries
          pending,            \* timers started and not yet fired
          calls,              \* executions so far
          timerExecs,         \* executions started by a timer
          runs,               \* executions started by the schedule
          lastOk,             \* outcome of the latest execution
          rhist
rvars == <<retries, okAfter, budget, pending, calls, timerExecs, runs, lastOk, rhist>>

Min(a, b) == IF a < b THEN a ELSE b
Max(a, b) == IF a > b THEN a ELSE b

\* k executions one after the other, starting from `calls` executions done and budget b: how many of them fail,
\* and how many of the failures find a unit of budget
FailedAmong(k) == Max(0, Min(k, okAfter - calls))
Scheduled(k) == Min(budget, FailedAmong(k))

RLog(a, k) == rhist' = Append(rhist, [a |-> a, calls |-> calls + k, pending |-> pending'])

Run ==
  /\ runs < MaxRuns
  /\ runs' = runs + 1 /\ calls' = calls + 1
  /\ pending' = pending + Scheduled(1) /\ budget' = budget - Scheduled(1)
  /\ lastOk' = (FailedAmong(1) = 0)
  /\ UNCHANGED <<retries, okAfter, timerExecs>>
  /\ RLog("run", 1)

Wave ==
  /\ pending > 0
  /\ calls' = calls + pending /\ timerExecs' = timerExecs + pending
  /\ pending' = Scheduled(pending) /\ budget' = budget - Scheduled(pending)
  /\ lastOk' = (calls + pending > okAfter)
  /\ UNCHANGED <<retries, okAfter, runs>>
  /\ RLog("wave", pending)

RInit == /\ retries \in MaxRetriesSet /\ okAfter \in OkAfterSet
         /\ budget = retries /\ pending = 0 /\ calls = 0 /\ timerExecs = 0 /\ runs = 0 /\ lastOk = TRUE /\ rhist = <<>>
RNext == Run \/ Wave
RSpec == RInit /\ [][RNext]_rvars

\* ---- the property -------------------------------------------------------
\* every unit of maxRetries is either unused, a timer that is running, or a re-execution that happened
Conservation == budget + pending + timerExecs = retries
BoundedReruns == timerExecs + pending <= retries
\* a step that starts timers contains a failed execution
TimersOnlyFromFailures == [][(pending' + timerExecs' > pending + timerExecs) => calls < okAfter]_rvars
RTypeOK == budget \in 0..retries /\ pending \in 0..retries /\ timerExecs \in 0..retries

\* quiescent behaviours (no timer running) are what the harness executes: steps with the number of executions after each
rview == <<retries, okAfter, budget, pending, calls, timerExecs, runs, lastOk>>
REmit == (pending = 0 /\ rhist # <<>>) =>
           PrintT(<<"RCASE", ToJson([retries |-> retries, okAfter |-> okAfter, steps |-> rhist,
                                      executions |-> calls, reruns |-> timerExecs, final |-> IF lastOk THEN "ok" ELSE "failed"])>>)
=============================================================================
