------------------------------ MODULE Namespace ------------------------------
(***************************************************************************)
(* C13: namespace prefixes and internal identifiers.                       *)
(* The hub chooses prefix tokens ("ns7") and internal ids itself, so the   *)
(* reference cannot say WHICH token an expansion gets; it says that the    *)
(* pairs handed out form one grow-only bijection (never changing, also     *)
(* across restarts) and that compacting a URI and expanding the result     *)
(* gives the URI back.  This module has two uses:                          *)
(*  - generation: TLC enumerates operation sequences over a pool of URI    *)
(*    shapes with restarts (Next/Emit); `known` says which expansions must *)
(*    be present in the context afterwards;                                *)
(*  - trace validation (module TraceNamespace): every pair the real code   *)
(*    handed out -- sequentially, or concurrently from many goroutines --  *)
(*    is checked against the grow-only bijection.                          *)
(***************************************************************************)
EXTENDS Integers, Sequences, FiniteSets, TLC, Json

CONSTANTS UriSeq,     \* tuple of [uri, exp, local]: URI shapes with their expected split
          MaxSteps

VARIABLES known,      \* expansions asserted so far
          stored,     \* URIs that were stored as entity ids
          hist

nvars == <<known, stored, hist>>
\* (the bit: a restart changes nothing else; without it a restart would only ever END a sequence)
nview == <<known, stored, IF hist = <<>> THEN FALSE ELSE hist[Len(hist)].a = "restart">>

U == 1..Len(UriSeq)
Log(r) == hist' = Append(hist, r)

\* a client compacts URI i (asserts its namespace)
Curie(i) ==
  /\ known' = known \cup {UriSeq[i].exp}
  /\ Log([a |-> "curie", uri |-> UriSeq[i].uri, exp |-> UriSeq[i].exp, local |-> UriSeq[i].local])
  /\ UNCHANGED stored

\* a client stores an entity whose id is URI i (asserts namespace and internal id)
Store(i) ==
  /\ known' = known \cup {UriSeq[i].exp}
  /\ stored' = stored \cup {i}
  /\ Log([a |-> "store", uri |-> UriSeq[i].uri, exp |-> UriSeq[i].exp, local |-> UriSeq[i].local])

\* URI i arrives as an entity id inside a payload whose OWN context writes it as a CURIE with a local prefix of
\* the hub's naming scheme ("ns<N>") that the hub itself has handed out for a DIFFERENT expansion (what another
\* hub's output looks like).  The payload's binding decides what the identifier denotes: same effect as Store(i).
Payload(i) ==
  /\ known' = known \cup {UriSeq[i].exp}
  /\ stored' = stored \cup {i}
  /\ Log([a |-> "payload", uri |-> UriSeq[i].uri, exp |-> UriSeq[i].exp, local |-> UriSeq[i].local])

\* URI i is written to two datasets by ONE transaction (its first use happens twice before anything is committed)
StoreTxn(i) ==
  /\ known' = known \cup {UriSeq[i].exp}
  /\ stored' = stored \cup {i}
  /\ Log([a |-> "storetxn", uri |-> UriSeq[i].uri, exp |-> UriSeq[i].exp, local |-> UriSeq[i].local])

Restart ==
  /\ hist # <<>>
  /\ IF hist = <<>> THEN FALSE ELSE hist[Len(hist)].a # "restart"
  /\ Log([a |-> "restart"])
  /\ UNCHANGED <<known, stored>>

Init == known = {} /\ stored = {} /\ hist = <<>>
Next ==
  /\ Len(hist) < MaxSteps
  /\ \/ \E i \in U : Curie(i) \/ Store(i) \/ Payload(i) \/ StoreTxn(i)
     \/ Restart
Spec == Init /\ [][Next]_nvars

\* what the context must contain (besides the hub's own namespaces) and which ids must resolve
NObs == [known |-> known, stored |-> { UriSeq[i].uri : i \in stored }]
NEmit == PrintT(<<"NTRACE", ToJson([steps |-> hist, obs |-> NObs])>>)
GrowOnly == [][known \subseteq known' /\ stored \subseteq stored']_nvars
=============================================================================
