------------------------------ MODULE RerunInd ------------------------------
(***************************************************************************)
(* The budget bookkeeping of spec/Rerun.tla without bounds: any maxRetries, *)
(* any number of executions by the schedule, any point at which the sink    *)
(* recovers.  IndInv is inductive (checked with Apalache: Init => IndInv,   *)
(* IndInv /\ Next => IndInv'), hence Conservation and BoundedReruns hold in *)
(* every reachable state of the unbounded machine.                          *)
(***************************************************************************)
EXTENDS Integers

CONSTANTS
  \* @type: Int;
  Retries,
  \* @type: Int;
  OkAfter

VARIABLES
  \* @type: Int;
  budget,
  \* @type: Int;
  pending,
  \* @type: Int;
  calls,
  \* @type: Int;
  timerExecs

ConstInit == Retries \in Nat /\ OkAfter \in Nat

Min(a, b) == IF a < b THEN a ELSE b
Max(a, b) == IF a > b THEN a ELSE b
FailedAmong(k) == Max(0, Min(k, OkAfter - calls))
Scheduled(k) == Min(budget, FailedAmong(k))

Run ==
  /\ calls' = calls + 1
  /\ pending' = pending + Scheduled(1) /\ budget' = budget - Scheduled(1)
  /\ UNCHANGED timerExecs

Wave ==
  /\ pending > 0
  /\ calls' = calls + pending /\ timerExecs' = timerExecs + pending
  /\ pending' = Scheduled(pending) /\ budget' = budget - Scheduled(pending)

Init == budget = Retries /\ pending = 0 /\ calls = 0 /\ timerExecs = 0
Next == Run \/ Wave

IndInv == /\ budget >= 0 /\ pending >= 0 /\ calls >= 0 /\ timerExecs >= 0
          /\ budget + pending + timerExecs = Retries
IndInit == /\ budget \in Int /\ pending \in Int /\ calls \in Int /\ timerExecs \in Int
           /\ IndInv
BoundedReruns == timerExecs + pending <= Retries
=============================================================================
