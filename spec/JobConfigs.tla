------------------------------ MODULE JobConfigs ------------------------------
(***************************************************************************)
(* C11, configuration space: the cross product of the job building blocks  *)
(* the scheduler validates.  TLC enumerates the whole box; for every       *)
(* configuration the scheduler ACCEPTS (decided by the real AddJob         *)
(* validation) the reference requires of each run, with a healthy and      *)
(* with a failing sink: it ends (no hang), as success, failure or kill,    *)
(* with a stored result and a released run slot, and the hub process       *)
(* survives.                                                               *)
(***************************************************************************)
EXTENDS Integers, Sequences, FiniteSets, TLC, Json
CONSTANTS Sources, Transforms, Sinks, Triggers, JobTypes, Handlers
VARIABLES cfg
Init == cfg \in [source : Sources, transform : Transforms, sink : Sinks, trigger : Triggers, jobType : JobTypes,
                 handlers : Handlers]
Next == UNCHANGED cfg
Spec == Init /\ [][Next]_cfg
Required == [ends |-> TRUE, outcome |-> {"success", "failure", "kill"}, result_stored |-> TRUE, slot_released |-> TRUE,
             process_alive |-> TRUE]
EmitCfg == PrintT(<<"JCFG", ToJson(cfg)>>)
=============================================================================
