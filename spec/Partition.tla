----------------------------- MODULE Partition -----------------------------
(***************************************************************************)
(* Implementation-shaped model of how the incremental pipeline splits a    *)
(* page of n entities into chunks for p parallel transform workers         *)
(* (internal/jobs/pipeline.go).  C10 needs: every entity in exactly one    *)
(* chunk, chunks in source order, no chunk of negative length (a negative  *)
(* length is a makeslice panic that kills the hub).                        *)
(* TLC enumerates the whole (n, p) box as initial states.                  *)
(* AsCoded = TRUE is the arithmetic of the pinned commit (round half up,   *)
(* last chunk not extended); FALSE is the arithmetic after the repair.     *)
(***************************************************************************)
EXTENDS Integers, Sequences, FiniteSets

CONSTANTS MaxN, MaxP, AsCoded
VARIABLES n, p

Round(a, b) == (2 * a + b) \div (2 * b)        \* math.Round(a / b) for positive a, b
Ceil(a, b) == (a + b - 1) \div b
Min(a, b) == IF a < b THEN a ELSE b

Par == IF n < p THEN 1 ELSE p
PSize == IF AsCoded THEN Round(n, Par) ELSE Ceil(n, Par)

From(i) == IF AsCoded THEN i * PSize ELSE Min(i * PSize, n)
To(i) == IF AsCoded THEN (IF i * PSize + PSize >= n THEN n ELSE i * PSize + PSize)
                    ELSE Min(From(i) + PSize, n)
ChunkIdx == 0..(Par - 1)
Items(i) == { k \in 0..(n - 1) : From(i) <= k /\ k < To(i) }

Init == n \in 1..MaxN /\ p \in 1..MaxP
Next == UNCHANGED <<n, p>>
Spec == Init /\ [][Next]_<<n, p>>

NoNegativeChunk == \A i \in ChunkIdx : To(i) - From(i) >= 0
Covered == UNION { Items(i) : i \in ChunkIdx } = 0..(n - 1)
Disjoint == \A i, j \in ChunkIdx : i # j => Items(i) \cap Items(j) = {}
Ordered == \A i, j \in ChunkIdx : i < j => \A a \in Items(i), b \in Items(j) : a < b
=============================================================================
