--------------------------- MODULE ErrorHandling ---------------------------
(***************************************************************************)
(* C17: per-entity error handling of a job run.                            *)
(*                                                                         *)
(* REFERENCE.  A run reads the source page by page and hands each page to  *)
(* the sink.  The sink rejects any batch that contains an entity of Fail.  *)
(* With a "log" handler (maxItems = m, 0 = unlimited) the job must deliver *)
(* every other entity, report every rejected entity exactly once, stop as  *)
(* failed as soon as m rejections were seen, and record the error.  With a *)
(* "reRun" handler a failed run is re-executed at most maxRetries times,   *)
(* never after a success.                                                  *)
(*                                                                         *)
(* The reference processes the entities of the run one by one in source    *)
(* order (Scan); how the implementation finds the rejected entities inside *)
(* a batch (it bisects) is not prescribed: the harness compares what was   *)
(* delivered (as a sequence), what was reported (as a sequence), the       *)
(* outcome class, the recorded error and the continuation token.           *)
(* TLC enumerates every case of the box as an initial state.               *)
(***************************************************************************)
EXTENDS Integers, Sequences, FiniteSets, TLC, Json

CONSTANTS MaxB,        \* number of source entities 1..MaxB
          PageSizes,   \* batch sizes of the job
          MaxRetriesSet,
          Mode         \* "log" | "rerun"

VARIABLES n, fail, m, page, retries, okAfter,   \* the case
          kill, jtype    \* reRun cases: the run is killed inside its first sink call; job type of the trigger
cvars == <<n, fail, m, page, retries, okAfter, kill, jtype>>

\* --- log handler ---------------------------------------------------------
\* scan entities 1..n in order; st = [del, rep, cnt, stop]
RECURSIVE Scan(_, _)
Scan(i, st) ==
  IF i > n \/ st.stop THEN st
  ELSE IF i \in fail
         THEN LET c == st.cnt + 1
              IN Scan(i + 1, [st EXCEPT !.rep = Append(@, i), !.cnt = c, !.stop = (m > 0 /\ c >= m)])
         ELSE Scan(i + 1, [st EXCEPT !.del = Append(@, i)])

\* the implementation works page by page: entities of the page in which the run stops that lie
\* BEFORE the stopping entity are delivered, those after it are not; later pages are not read
Result == Scan(1, [del |-> <<>>, rep |-> <<>>, cnt |-> 0, stop |-> FALSE])

Outcome == IF Result.rep = <<>> THEN "ok" ELSE "failed"
\* pages completely processed (token): a page counts if the run did not stop inside or before it
PagesOf == (n + page - 1) \div page
StopAt == IF Result.stop THEN Result.rep[Len(Result.rep)] ELSE n + 1
Token == IF Result.stop THEN ((StopAt - 1) \div page) * page ELSE n

\* --- reRun handler -------------------------------------------------------
\* the sink rejects everything during the first okAfter executions (okAfter > retries + 1: never recovers).
\* A run that is killed (cancelled while the sink handles its first batch; the source has more pages) stops at
\* the next interrupt check and is NOT executed again, whatever the handler allows: one sink call in total.
Executions == IF kill THEN 1 ELSE IF okAfter <= retries THEN okAfter + 1 ELSE retries + 1
FinalOutcome == IF kill THEN "killed" ELSE IF okAfter <= retries THEN "ok" ELSE "failed"

Init ==
  /\ n \in 1..MaxB
  /\ page \in PageSizes
  /\ IF Mode = "log"
       THEN /\ fail \in SUBSET (1..n) /\ m \in 0..n /\ retries = 0 /\ okAfter = 0 /\ kill = FALSE /\ jtype = "incremental"
       ELSE /\ fail = {} /\ m = 0 /\ retries \in MaxRetriesSet /\ jtype \in {"incremental", "fullsync"}
            /\ \/ (kill = FALSE /\ okAfter \in 0..3 /\ n = 1)
               \/ (kill = TRUE /\ okAfter = 0 /\ n = 3 /\ page = 1)
Next == UNCHANGED cvars
Spec == Init /\ [][Next]_cvars

\* properties of the reference
Complement == ~Result.stop => { Result.del[i] : i \in 1..Len(Result.del) } = (1..n) \ fail
ReportedOnce == \A i, j \in 1..Len(Result.rep) : i # j => Result.rep[i] # Result.rep[j]
StopsAtMax == (m > 0 /\ Cardinality(fail) >= m) <=> Result.stop
NoLoss == \A i \in 1..n : (i < StopAt /\ i \notin fail) => \E k \in 1..Len(Result.del) : Result.del[k] = i
BoundedReruns == Executions <= retries + 1
NoRerunAfterKill == kill => Executions = 1

CaseObs == [n |-> n, fail |-> fail, m |-> m, page |-> page, mode |-> Mode,
            delivered |-> Result.del, reported |-> Result.rep, outcome |-> Outcome, token |-> Token,
            retries |-> retries, okAfter |-> okAfter, executions |-> Executions, final |-> FinalOutcome,
            kill |-> kill, jtype |-> jtype,
            \* a second execution of the same job with nothing new to read (the first one ran to the end):
            \* nothing is delivered or reported and the run is recorded as a success
            second |-> IF Result.stop THEN "n/a" ELSE "ok"]
EmitCase == PrintT(<<"CASE", ToJson(CaseObs)>>)
=============================================================================
