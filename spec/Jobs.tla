-------------------------------- MODULE Jobs --------------------------------
(***************************************************************************)
(* REFERENCE module for the jobs engine (C08, C10; token safety part of    *)
(* C04/C11): a job copies one or several source datasets into a sink       *)
(* dataset, page by page, through an optional transform.  It extends the   *)
(* core module: sources and sinks are ordinary datasets of Datahub.tla.    *)
(*                                                                         *)
(* One action RunJob(j, type, fault) is one complete run of a job (runs of *)
(* one job id never overlap -- that is C11's concern, spec/Raffle.tla).    *)
(* The run is the sequential composition of its pipeline steps             *)
(*     ReadPage ; Transform ; SinkWrite ; StoreToken                       *)
(* folded by the recursive operator Pump; a fault cuts the fold at a       *)
(* chosen sink call:                                                       *)
(*   before n : the sink rejects its n-th batch (nothing of it is written) *)
(*   after  n : the run dies after the sink accepted its n-th batch but    *)
(*              before the token was stored (the crash window of C08)      *)
(*   kill   n : the run is cancelled after its n-th batch completed        *)
(* The step logged in hist carries what the harness compares: the exact    *)
(* sequence of batches handed to the sink, the outcome class and the       *)
(* persisted continuation token(s).                                        *)
(***************************************************************************)
EXTENDS Datahub

CONSTANTS
  JobSeq,     \* tuple of job definitions [id, src (tuple of dataset names), sink, batch, lo, xf, par]
  JobTypes,   \* subset of {"incremental", "fullsync"}
  FillNs,     \* sizes of the Fill action (C10: number of source entities)
  Faults      \* set of fault records [k |-> "none"] | [k |-> "before"|"after"|"kill", n |-> Nat]

VARIABLES
  jobTok,     \* [job index -> tuple of tokens, one per source member]
  jobRes      \* [job index -> [state, processed]] last recorded outcome

jvars == <<vars, jobTok, jobRes>>
jview == <<view, jobTok, jobRes>>

JobIdx == 1..Len(JobSeq)
NoFault == [k |-> "none"]

DelOf(c) == CHOOSE x \in CId : CV(x) = [CV(c) EXCEPT !.d = TRUE]
HasDelOf(c) == \E x \in CId : CV(x) = [CV(c) EXCEPT !.d = TRUE]

\* transforms (what the JavaScript of the harness does).  Element-wise ones build a new array ...
RECURSIVE XfE(_, _)
XfE(kind, items) ==
  IF items = <<>> THEN <<>>
  ELSE LET x == items[1]
           rest == XfE(kind, Tail(items))
       IN CASE kind \in {"none", "identity", "create", "http", "httpctx"} -> <<x>> \o rest   \* create: rebuilt with NewEntity; http: an external service that echoes
            [] kind = "dup"                  -> <<x, x>> \o rest
            [] kind = "dropdel"              -> IF IsDel(x[2]) THEN rest ELSE <<x>> \o rest
\* ... the others change the array they were handed IN PLACE and return it (push / unshift / pop); they are
\* defined on a whole sequence (see XfPage for what a parallel run hands to them)
Xf(kind, items) ==
  IF items = <<>> THEN <<>>
  ELSE CASE kind = "pushfirst"   -> items \o <<items[1]>>
         [] kind = "unshiftlast" -> <<items[Len(items)]>> \o items
         [] kind = "popdrop"     -> SubSeq(items, 1, Len(items) - 1)
         [] OTHER                -> XfE(kind, items)

\* An incremental run with parallelism p splits a page of n >= p entities into p consecutive chunks of
\* ceil(n / p) (the last ones may be shorter or empty), transforms every chunk on its own and concatenates the
\* results in chunk order.  For element-wise transforms this is the transform of the page; for the in-place ones
\* it is not (each chunk gets its own push / unshift / pop).  Full syncs transform the page as a whole.
RECURSIVE XfChunks(_, _, _, _, _)
XfChunks(kind, items, ps, i, p) ==
  IF i >= p THEN <<>>
  ELSE LET n == Len(items)
           lo == i * ps + 1
           hi == IF (i + 1) * ps < n THEN (i + 1) * ps ELSE n
       IN Xf(kind, IF lo > hi THEN <<>> ELSE SubSeq(items, lo, hi)) \o XfChunks(kind, items, ps, i + 1, p)
XfPage(j, items, full) ==
  IF full \/ j.par <= 1 \/ Len(items) < j.par THEN Xf(j.xf, items)
  ELSE XfChunks(j.xf, items, (Len(items) + j.par - 1) \div j.par, 0, j.par)

\* the pump over ONE source member: read a page, transform, write, store token -- until an
\* empty page.  st = [f, np, tok, calls, n, out, seen, done]
RECURSIVE Pump(_, _, _, _, _)
Pump(j, srcF, st, fault, t) ==
  IF st.out # "run" THEN st
  ELSE
  LET pg == ChangesIn(srcF, st.tok, j.batch, j.lo) IN
  IF pg.items = <<>> THEN [st EXCEPT !.tok = pg.next]
  ELSE
    LET items == XfPage(j, pg.items, st.full)
        n == st.n + 1
    IN IF fault.k = "before" /\ fault.n = n
         THEN [st EXCEPT !.calls = Append(@, items), !.n = n, !.out = "failed"]
       ELSE
         LET r == Apply(st.f, st.np, items, t)
             wrote == [st EXCEPT !.f = r[1], !.np = r[2], !.calls = Append(@, items), !.n = n,
                                 !.seen = @ \cup BatchEnts(items), !.done = @ + Len(pg.items)]
         IN IF fault.k = "after" /\ fault.n = n THEN [wrote EXCEPT !.out = "failed"]
            ELSE IF fault.k = "kill" /\ fault.n = n THEN [wrote EXCEPT !.tok = pg.next, !.out = "killed"]
            ELSE Pump(j, srcF, [wrote EXCEPT !.tok = pg.next], fault, t)

\* all members of a (union) source in order; toks is the tuple of member tokens
RECURSIVE PumpAll(_, _, _, _, _, _)
PumpAll(j, m, st, toks, fault, t) ==
  IF m > Len(j.src) \/ st.out # "run" THEN <<st, toks>>
  ELSE LET r == Pump(j, F(j.src[m]), [st EXCEPT !.tok = toks[m]], fault, t)
       IN PumpAll(j, m + 1, r, [toks EXCEPT ![m] = r.tok], fault, t)

\* end of a full sync: every live entity of the sink that was not written gets a deleted version
RECURSIVE Tombstones(_, _, _, _, _)
Tombstones(f, np, es, seen, t) ==
  IF es = <<>> THEN <<f, np>>
  ELSE LET e == es[1]
           c == LatestIn(f, e)
       IN IF c # NoV /\ ~IsDel(c) /\ e \notin seen
            THEN LET r == Apply(f, np, <<<<e, DelOf(c)>>>>, t) IN Tombstones(r[1], r[2], Tail(es), seen, t)
            ELSE Tombstones(f, np, Tail(es), seen, t)

EntOrder == SetToSeq(Ent)

RunJob(ji, type, fault) ==
  LET j == JobSeq[ji]
      si == dsInc[j.sink]
      full == type = "fullsync"
      start == [f |-> feed[si], np |-> nextPos[si], tok |-> 0, calls |-> <<>>, n |-> 0, out |-> "run",
                seen |-> {}, done |-> 0, full |-> full]
      toks0 == IF full THEN [m \in 1..Len(j.src) |-> 0] ELSE jobTok[ji]
      pr == PumpAll(j, 1, start, toks0, fault, clock + 1)
      st == pr[1]
      ok == st.out = "run"
      tomb == IF full /\ ok THEN Tombstones(st.f, st.np, EntOrder, st.seen, clock + 1) ELSE <<st.f, st.np>>
      \* incremental: tokens are stored page by page; fullsync: only at the successful end
      \* (a full sync forgets the incremental position when it starts - fix of the hub: a sink that was only
      \* partly re-written may hold older versions, the next run has to start from the beginning)
      newTok == IF full THEN (IF ok THEN pr[2] ELSE [m \in 1..Len(j.src) |-> 0]) ELSE pr[2]
      outcome == IF ok THEN "ok" ELSE st.out
  IN /\ "job" \in Acts
     /\ Exists(j.sink) /\ \A m \in 1..Len(j.src) : Exists(j.src[m])
     /\ type \in JobTypes
     /\ (fault.k # "none") => (fault.n <= st.n /\ (st.out # "run"))     \* the fault position was reached
     /\ \A m \in 1..Len(j.src) : j.src[m] # j.sink
     /\ feed' = [feed EXCEPT ![si] = tomb[1]]
     /\ nextPos' = [nextPos EXCEPT ![si] = tomb[2]]
     /\ everStored' = [everStored EXCEPT ![si] = @ \cup st.seen]
     /\ jobTok' = [jobTok EXCEPT ![ji] = newTok]
     /\ jobRes' = [jobRes EXCEPT ![ji] = [state |-> outcome, processed |-> st.done]]
     /\ clock' = clock + 1
     /\ Log([a |-> "job", j |-> ji, type |-> type, fault |-> fault, calls |-> st.calls,
             outcome |-> outcome, tok |-> newTok, processed |-> st.done])
     /\ UNCHANGED <<dsInc, nextInc, deletedInc, purgedInc, metaOf, rd, bk>>

\* C10: put n distinct entities into a source dataset in one batch (logged as an ordinary store)
Fill(name, n) ==
  /\ "fill" \in Acts /\ Exists(name) /\ name \in Writable /\ n <= Len(EntOrder)
  /\ F(name) = <<>>
  /\ LET b == [i \in 1..n |-> <<EntOrder[i], 1>>]
         i == dsInc[name]
         r == Apply(feed[i], nextPos[i], b, clock + 1)
     IN /\ feed' = [feed EXCEPT ![i] = r[1]]
        /\ nextPos' = [nextPos EXCEPT ![i] = r[2]]
        /\ everStored' = [everStored EXCEPT ![i] = @ \cup BatchEnts(b)]
        /\ Log([a |-> "store", ds |-> name, b |-> b])
  /\ clock' = clock + 1
  /\ UNCHANGED <<dsInc, nextInc, deletedInc, purgedInc, metaOf, rd, bk, jobTok, jobRes>>

JInit(base) ==
  /\ base
  /\ jobTok = [ji \in JobIdx |-> [m \in 1..Len(JobSeq[ji].src) |-> 0]]
  /\ jobRes = [ji \in JobIdx |-> [state |-> "never", processed |-> 0]]

JNext ==
  \/ (Next /\ UNCHANGED <<jobTok, jobRes>>)
  \/ (Steps < MaxSteps /\ \E ji \in JobIdx, ty \in JobTypes, fl \in Faults : RunJob(ji, ty, fl))
  \/ (Steps < MaxSteps /\ \E name \in DsName, n \in FillNs : Fill(name, n))

JNextSample ==
  \/ (NextSample /\ UNCHANGED <<jobTok, jobRes>>)
  \/ (Steps < MaxSteps /\ \E k \in 1..Fan :
        \E ji \in RE(JobIdx), ty \in RE(JobTypes), fl \in RE(Faults) : RunJob(ji, ty, fl))

JSpecCreated == JInit(InitCreated) /\ [][JNext]_jvars
JSpecCreatedSample == JInit(InitCreated) /\ [][JNextSample]_jvars

-----------------------------------------------------------------------------
(* Properties of the reference (C08, C10) *)

SrcLatest(j) ==     \* latest view of the (union of the) source(s); members use disjoint id pools
  UNION { Entities(j.src[m]) : m \in 1..Len(j.src) }

\* C08: after a successful run the sink's latest view equals the source's (incremental
\* runs of a job that is the sink's only writer, identity or no transform, from the start)
ConvergeOnSuccess ==
  (hist' # hist /\ hist'[Len(hist')].a = "job" /\ hist'[Len(hist')].outcome = "ok") =>
     \A ji \in JobIdx :
       (hist'[Len(hist')].j = ji) =>
         LET j == JobSeq[ji]
         IN (j.xf \in {"none", "identity", "create", "http", "httpctx", "dup"} /\ hist'[Len(hist')].type = "fullsync" /\ ~j.lo) =>
              \A x \in SrcLatest(j)' : ~IsDel(x[2]) => x \in Entities(j.sink)'
Converges == [][ConvergeOnSuccess]_jvars

\* C08 as stated, for ANY successful run of a job that is the only writer of its sink (single-job configurations):
\* afterwards every latest version of the source - deleted ones included - is the sink's latest version of that id
ConvergeAnyStep ==
  (hist' # hist /\ hist'[Len(hist')].a = "job" /\ hist'[Len(hist')].outcome = "ok") =>
     \A ji \in JobIdx :
       (hist'[Len(hist')].j = ji) =>
         LET j == JobSeq[ji]
         IN j.xf \in {"none", "identity", "create", "http", "httpctx"} => \A x \in SrcLatest(j)' : x \in Entities(j.sink)'
ConvergesAny == [][ConvergeAnyStep]_jvars

\* C08: the persisted token never points past data that was not written to the sink:
\* whatever happened before, a fault-free incremental run makes every live source version
\* (latest-only sources: the newest versions) present in the sink afterwards
TokenSafeStep ==
  (hist' # hist /\ hist'[Len(hist')].a = "job") =>
     LET h == hist'[Len(hist')]
     IN \A m \in 1..Len(h.tok) : h.tok[m] <= nextPos'[dsInc'[JobSeq[h.j].src[m]]]
TokenSafe == [][TokenSafeStep]_jvars

\* C08: a run with nothing new changes nothing
IdempotentStep ==
  (hist' # hist /\ hist'[Len(hist')].a = "job" /\ Len(hist) > 0) =>
     LET h == hist'[Len(hist')]
         g == hist[Len(hist)]
     IN (g.a = "job" /\ g.j = h.j /\ g.type = "incremental" /\ h.type = "incremental"
         /\ g.outcome = "ok" /\ h.fault = NoFault)
        => (feed' = feed /\ jobTok' = jobTok)
Idempotent == [][IdempotentStep]_jvars

-----------------------------------------------------------------------------
JObs == [base |-> Obs,
         jobs |-> [ji \in JobIdx |-> [tok |-> jobTok[ji], state |-> jobRes[ji].state,
                                      processed |-> jobRes[ji].processed]]]
JEmit == PrintT(<<"TRACE", ToJson(IF TrackPre THEN [steps |-> hist, obs |-> Obs, jobs |-> JObs.jobs, pre |-> pre]
                                                ELSE [steps |-> hist, obs |-> Obs, jobs |-> JObs.jobs])>>)
JHeader == [base |-> Header, jobs |-> JobSeq]
JEmitHeader == PrintT(<<"JHEADER", ToJson(JHeader)>>)
=============================================================================
