------------------------------- MODULE Datahub -------------------------------
(***************************************************************************)
(* Core REFERENCE module of the MIMIRO data hub: the observable behaviour  *)
(* that properties C01 C02 C03 C06 C07 C12 C14 C19 C20 quantify over.      *)
(*                                                                         *)
(* State is abstract: per dataset incarnation one change feed (the single  *)
(* ground truth); every read API of the hub is an operator over the feeds. *)
(* One action per API-level linearization point.  The module is bound to   *)
(* the implementation by behaviour replay: TLC emits, for every generated  *)
(* state, the action history that reached it together with the answers     *)
(* required of every read API (operator Obs); the Go harness executes the  *)
(* history against the real Store/DsManager and compares each answer.      *)
(***************************************************************************)
EXTENDS Integers, Sequences, FiniteSets, TLC, Json, SequencesExt, FiniteSetsExt

CONSTANTS
  DsSeq,       \* tuple of dataset names (strings); its order is creation order
  Ent,         \* entity ids (strings)
  Pred,        \* reference predicates (strings)
  ContentSeq,  \* tuple of content records [p, r, d]; a content is its index
  MaxBatch,    \* max elements in one batch
  MaxSteps,    \* bound on the number of actions (enabling condition of Next)
  Acts,        \* enabled action families, subset of ActNames
  ObsKinds,    \* which read APIs are rendered into Obs
  Limits,      \* page limits used by Obs (0 = unlimited)
  Allowed,     \* {} = everything, or the set of <<dataset, entity, content>> triples that may be written (id pools per dataset)
  TrackPre,    \* TRUE: keep the previous state's Obs in variable pre and emit it (crash configurations)
  Writable,    \* dataset names that StoreBatch / ExecTxn may write to (jobs write to the others)
  Precreated,  \* TRUE iff the configuration starts from InitCreated (told to the harness in the header)
  Fan,         \* successors kept per state by NextSample (sampled deep exploration)
  Readers      \* reader ids (token-carrying feed readers), each [ds, lo, lim]

DsName == { DsSeq[k] : k \in 1..Len(DsSeq) }
DsIdx(n) == CHOOSE k \in 1..Len(DsSeq) : DsSeq[k] = n
ActNames == {"store", "txn", "tick", "create", "delete", "rename", "gc",
             "restart", "compact", "dup", "read", "backup", "foreign", "lsm", "reject", "race"}

VARIABLES
  clock,       \* logical time; every write action happens at clock+1
  dsInc,       \* [DsName -> Nat]   0 = no such dataset, else live incarnation
  nextInc,     \* next incarnation id (never reused)
  deletedInc,  \* incarnations whose dataset was deleted
  purgedInc,   \* deleted incarnations already garbage collected
  feed,        \* [Inc -> Seq([pos, e, c, t])]  change log per incarnation
  nextPos,     \* [Inc -> Nat]  next change position per incarnation
  everStored,  \* [Inc -> SUBSET Ent] ids ever stored (items counter, C19)
  metaOf,      \* [DsName -> "none" | "live" | "deleted"] meta-entity state in core.Dataset
  rd,          \* [Readers -> [tok, acc]] reader tokens and accumulated output
  bk,          \* what the backup location holds: NoBk or the persistent state at the last backup run
  pre,         \* Obs of the state before the last action (only if TrackPre; hidden by VIEW) -- crash checks
  hist         \* action history (hidden by VIEW in exhaustive configs)

vars == <<clock, dsInc, nextInc, deletedInc, purgedInc, feed, nextPos,
          everStored, metaOf, rd, bk, pre, hist>>
\* the history is hidden from the view except for one bit: whether the storage engine compacted its LSM tree.
\* That environment step changes no abstract state, yet what follows it must still be explored.
view == <<clock, dsInc, nextInc, deletedInc, purgedInc, feed, nextPos,
          everStored, metaOf, rd, bk, \E i \in 1..Len(hist) : hist[i].a = "lsm",
          \* ... whether the hub was restarted in the last step (a restart changes no abstract state: without this
          \* bit TLC would only ever put a restart at the END of a history)
          IF hist = <<>> THEN FALSE ELSE hist[Len(hist)].a = "restart",
          \* ... and how many batches were refused (they change no answer either; which one it was is left to
          \* the first history found)
          Cardinality({ i \in 1..Len(hist) : hist[i].a = "reject" })>>

MaxInc == 6
Inc == 1..MaxInc
NC == Len(ContentSeq)
CId == 1..NC
NoV == 0                         \* "no version"
CV(i) == ContentSeq[i]
IsDel(i) == CV(i).d
Targets(i, p) == { CV(i).r[p].t[k] : k \in 1..Len(CV(i).r[p].t) }

Exists(n) == dsInc[n] # 0
LiveNames == { n \in DsName : Exists(n) }
F(n) == feed[dsInc[n]]

-----------------------------------------------------------------------------
(* Derived views of one feed *)

Idx(f, e) == { i \in 1..Len(f) : f[i].e = e }
LatestIn(f, e) == IF Idx(f, e) = {} THEN NoV ELSE f[Max(Idx(f, e))].c
LatestAtIn(f, e, t) ==
  LET I == { i \in Idx(f, e) : f[i].t <= t }
  IN IF I = {} THEN NoV ELSE f[Max(I)].c
EntsIn(f) == { f[i].e : i \in 1..Len(f) }

\* a batch is applied element by element; only a true-equal element is skipped
RECURSIVE Apply(_, _, _, _)
Apply(f, np, b, t) ==
  IF b = <<>> THEN <<f, np>>
  ELSE LET e == b[1][1]
           c == b[1][2]
       IN IF LatestIn(f, e) = c
            THEN Apply(f, np, Tail(b), t)
            ELSE Apply(Append(f, [pos |-> np, e |-> e, c |-> c, t |-> t]),
                       np + 1, Tail(b), t)

BatchEnts(b) == { b[i][1] : i \in 1..Len(b) }

-----------------------------------------------------------------------------
(* Read APIs as operators *)

\* GET /datasets/{n}/entities : latest version of every entity (bag)
Entities(n) ==
  LET f == F(n) IN { <<e, LatestIn(f, e)>> : e \in EntsIn(f) }

\* GET /datasets/{n}/changes?since=&limit=&latestOnly=
\* scan from the first entry with pos >= since; emit all | only the newest
\* version of its entity; stop right after the lim-th emission (0: no limit);
\* next token = position after the last scanned entry, or since if none.
RECURSIVE Scan(_, _, _, _, _, _)
Scan(f, i, lim, lo, out, last) ==
  IF i > Len(f) \/ (lim > 0 /\ Len(out) = lim) THEN <<out, last>>
  ELSE LET emit == ~lo \/ i = Max(Idx(f, f[i].e))
       IN Scan(f, i + 1, lim, lo,
               IF emit THEN Append(out, <<f[i].e, f[i].c>>) ELSE out,
               f[i].pos + 1)

ChangesIn(f, since, lim, lo) ==
  LET first == { i \in 1..Len(f) : f[i].pos >= since }
  IN IF first = {} THEN [items |-> <<>>, next |-> since]
     ELSE LET r == Scan(f, Min(first), lim, lo, <<>>, since)
          IN [items |-> r[1], next |-> r[2]]
Changes(n, since, lim, lo) == ChangesIn(F(n), since, lim, lo)

\* datasets visible to a query with the given scope (set of names; {} = all)
InScope(scope) ==
  { i \in Inc : /\ i \notin deletedInc
                /\ \E n \in DsName : dsInc[n] = i /\ (scope = {} \/ n \in scope) }
NameOf(i) == CHOOSE n \in DsName : dsInc[n] = i

\* entity lookup at instant t: the live partials (dataset, content) to merge
Partials(e, scope, t) ==
  { <<NameOf(i), LatestAtIn(feed[i], e, t)>> :
      i \in { j \in InScope(scope) :
                LET c == LatestAtIn(feed[j], e, t) IN c # NoV /\ ~IsDel(c) } }
SomeDeleted(e, scope, t) ==
  \E j \in InScope(scope) :
     LET c == LatestAtIn(feed[j], e, t) IN c # NoV /\ IsDel(c)

\* the graph: edge <<s, p, o>> holds in incarnation i at instant t
LiveAt(i, s, t) == LET c == LatestAtIn(feed[i], s, t) IN c # NoV /\ ~IsDel(c)
Out(s, p, scope, t) ==
  { <<q, o>> \in Pred \X Ent :
      /\ (p = "*" \/ q = p)
      /\ \E i \in InScope(scope) :
            LiveAt(i, s, t) /\ o \in Targets(LatestAtIn(feed[i], s, t), q) }
In(o, p, scope, t) ==
  { <<q, s>> \in Pred \X Ent :
      /\ (p = "*" \/ q = p)
      /\ \E i \in InScope(scope) :
            LiveAt(i, s, t) /\ o \in Targets(LatestAtIn(feed[i], s, t), q) }

-----------------------------------------------------------------------------
(* Observation bundle: the answers required of the read APIs in this state.  *)
(* Only non-default answers are listed; the harness enumerates the same      *)
(* query universe from the header and expects the default (empty) answer for *)
(* every query that is absent.                                               *)

SetToSeq2(S) == SetToSeq(S)
Scopes == SUBSET DsName
Instants == IF "past" \in ObsKinds THEN 0..clock ELSE {clock}
PredsStar == Pred \cup {"*"}

ObsEnt ==
  [n \in LiveNames |-> SetToSeq2(Entities(n))]

ObsChgOf(n) ==
  { x \in { [ds |-> n, since |-> s, lim |-> l, lo |-> lo, pg |-> Changes(n, s, l, lo)] :
             s \in 0..(nextPos[dsInc[n]] + 1), l \in Limits, lo \in BOOLEAN } :
      x.pg.items # <<>> }
ObsChg == SetToSeq2(UNION { ObsChgOf(n) : n \in LiveNames })

ObsLook ==
  SetToSeq2(
    { x \in { [e |-> e, sc |-> SetToSeq2(sc), t |-> t,
               del |-> SomeDeleted(e, sc, t),
               parts |-> SetToSeq2(Partials(e, sc, t))] :
               e \in Ent, sc \in Scopes, t \in Instants } :
        x.parts # <<>> \/ x.del })

ObsRel ==
  SetToSeq2(
    { x \in { [s |-> s, p |-> p, inv |-> inv, sc |-> SetToSeq2(sc), t |-> t,
               pairs |-> SetToSeq2(IF inv THEN In(s, p, sc, t) ELSE Out(s, p, sc, t))] :
               s \in Ent, p \in PredsStar, inv \in BOOLEAN, sc \in Scopes, t \in Instants } :
        x.pairs # <<>> })

ObsCat ==
  [n \in { m \in DsName : metaOf[m] # "none" } |->
     [state |-> metaOf[n],
      items |-> IF Exists(n) THEN Cardinality(everStored[dsInc[n]]) ELSE -1]]

Obs ==
  [clock |-> clock,
   names |-> SetToSeq2(LiveNames),
   ent  |-> IF "ent" \in ObsKinds THEN ObsEnt ELSE <<>>,
   chg  |-> IF "chg" \in ObsKinds THEN ObsChg ELSE <<>>,
   look |-> IF "look" \in ObsKinds THEN ObsLook ELSE <<>>,
   rel  |-> IF "rel" \in ObsKinds THEN ObsRel ELSE <<>>,
   cat  |-> IF "cat" \in ObsKinds THEN ObsCat ELSE <<>>]

-----------------------------------------------------------------------------
(* Actions *)

Batches == UNION { [1..k -> Ent \X CId] : k \in 1..MaxBatch }

Log(r) == hist' = Append(hist, r) /\ pre' = (IF TrackPre THEN Obs ELSE <<>>)
Steps == Len(hist)

WriteOk(n, b) == Allowed = {} \/ \A i \in 1..Len(b) : <<n, b[i][1], b[i][2]>> \in Allowed
StoreBatch(n, b) ==
  /\ "store" \in Acts /\ Exists(n) /\ n \in Writable /\ WriteOk(n, b)
  /\ LET i == dsInc[n]
         r == Apply(feed[i], nextPos[i], b, clock + 1)
     IN /\ feed' = [feed EXCEPT ![i] = r[1]]
        /\ nextPos' = [nextPos EXCEPT ![i] = r[2]]
        /\ everStored' = [everStored EXCEPT ![i] = @ \cup BatchEnts(b)]
  /\ clock' = clock + 1
  /\ Log([a |-> "store", ds |-> n, b |-> b])
  /\ UNCHANGED <<dsInc, nextInc, deletedInc, purgedInc, metaOf, rd, bk>>

\* A batch the hub rejects as a whole: the elements of b followed by an element the hub cannot store (the
\* harness uses an entity of a never-used id with a null reference).  All or nothing: no answer changes,
\* now or after a crash; the identifiers the valid elements brought along may or may not stay known, which
\* no read API shows.
\* As coded (named deviation, harmless for every listed property): the change-log positions the refused
\* elements took from the dataset's sequence are not given back, so the log has a hole there - one position
\* for every element that would have been written plus one for the element that was refused.
RejectBatch(n, b) ==
  /\ "reject" \in Acts /\ Exists(n) /\ n \in Writable /\ WriteOk(n, b)
  /\ LET i == dsInc[n]
         r == Apply(feed[i], nextPos[i], b, clock + 1)
     IN nextPos' = [nextPos EXCEPT ![i] = r[2] + 1]
  /\ Log([a |-> "reject", ds |-> n, b |-> b])
  /\ UNCHANGED <<clock, dsInc, nextInc, deletedInc, purgedInc, feed, everStored, metaOf, rd, bk>>

\* a transaction writes one element to each of two datasets at one instant
ExecTxn(n1, x1, n2, x2) ==
  /\ "txn" \in Acts /\ Exists(n1) /\ Exists(n2) /\ DsIdx(n1) < DsIdx(n2)
  /\ n1 \in Writable /\ n2 \in Writable /\ WriteOk(n1, <<x1>>) /\ WriteOk(n2, <<x2>>)
  /\ LET i1 == dsInc[n1]
         i2 == dsInc[n2]
         r1 == Apply(feed[i1], nextPos[i1], <<x1>>, clock + 1)
         r2 == Apply(feed[i2], nextPos[i2], <<x2>>, clock + 1)
     IN /\ feed' = [feed EXCEPT ![i1] = r1[1], ![i2] = r2[1]]
        /\ nextPos' = [nextPos EXCEPT ![i1] = r1[2], ![i2] = r2[2]]
        /\ everStored' = [everStored EXCEPT ![i1] = @ \cup {x1[1]},
                                            ![i2] = @ \cup {x2[1]}]
  /\ clock' = clock + 1
  /\ Log([a |-> "txn", m |-> <<<<n1, <<x1>>>>, <<n2, <<x2>>>>>>])
  /\ UNCHANGED <<dsInc, nextInc, deletedInc, purgedInc, metaOf, rd, bk>>

Tick ==
  /\ "tick" \in Acts
  /\ clock' = clock + 1
  /\ Log([a |-> "tick"])
  /\ UNCHANGED <<dsInc, nextInc, deletedInc, purgedInc, feed, nextPos,
                 everStored, metaOf, rd, bk>>

CreateDs(n) ==
  /\ "create" \in Acts /\ ~Exists(n) /\ nextInc <= MaxInc
  /\ dsInc' = [dsInc EXCEPT ![n] = nextInc]
  /\ nextInc' = nextInc + 1
  /\ metaOf' = [metaOf EXCEPT ![n] = "live"]
  /\ clock' = clock + 1
  /\ Log([a |-> "create", ds |-> n])
  /\ UNCHANGED <<deletedInc, purgedInc, feed, nextPos, everStored, rd, bk>>

DeleteDs(n) ==
  /\ "delete" \in Acts /\ Exists(n)
  /\ deletedInc' = deletedInc \cup {dsInc[n]}
  /\ dsInc' = [dsInc EXCEPT ![n] = 0]
  /\ metaOf' = [metaOf EXCEPT ![n] = "deleted"]
  /\ clock' = clock + 1
  /\ Log([a |-> "delete", ds |-> n])
  /\ UNCHANGED <<nextInc, purgedInc, feed, nextPos, everStored, rd, bk>>

RenameDs(n, m) ==
  /\ "rename" \in Acts /\ Exists(n) /\ ~Exists(m) /\ n # m
  /\ dsInc' = [dsInc EXCEPT ![n] = 0, ![m] = dsInc[n]]
  /\ metaOf' = [metaOf EXCEPT ![n] = "deleted", ![m] = "live"]
  /\ clock' = clock + 1
  /\ Log([a |-> "rename", ds |-> n, to |-> m])
  /\ UNCHANGED <<nextInc, deletedInc, purgedInc, feed, nextPos, everStored, rd, bk>>

\* garbage collection physically removes deleted incarnations: unobservable
GC ==
  /\ "gc" \in Acts /\ purgedInc # deletedInc
  /\ purgedInc' = deletedInc
  /\ Log([a |-> "gc"])
  /\ UNCHANGED <<clock, dsInc, nextInc, deletedInc, feed, nextPos, everStored,
                 metaOf, rd, bk>>

\* stop + start at a quiescent point: unobservable (C14)
Restart ==
  /\ "restart" \in Acts
  /\ hist # <<>>
  /\ IF hist = <<>> THEN FALSE ELSE hist[Len(hist)].a # "restart"
  /\ Log([a |-> "restart"])
  /\ UNCHANGED <<clock, dsInc, nextInc, deletedInc, purgedInc, feed, nextPos,
                 everStored, metaOf, rd, bk>>

\* Environment step: the storage engine compacts its LSM tree (badger does so in the background at moments
\* of its own choosing): versions and delete markers no reader can see are physically dropped.  Nothing a
\* hub API answers may change, now or later (e.g. what the next backup run captures).  At most once per
\* behaviour (the harness needs about a second to provoke it).
LsmCompact ==
  /\ "lsm" \in Acts
  /\ hist # <<>>
  /\ \A i \in 1..Len(hist) : hist[i].a # "lsm"
  /\ Log([a |-> "lsm"])
  /\ UNCHANGED <<clock, dsInc, nextInc, deletedInc, purgedInc, feed, nextPos,
                 everStored, metaOf, rd, bk>>

\* a "legacy duplicate": a version identical to its immediate predecessor, as
\* older hub versions wrote them (C12's quantifier).  Realised in the harness
\* as store(x) ; store(c) ; physically remove version x  -- two commit instants.
OtherContent(c) == CHOOSE x \in CId : x # c /\ CV(x).r = CV(c).r /\ ~IsDel(x)
InjectDup(n, e) ==
  /\ "dup" \in Acts /\ Exists(n)
  /\ LET i == dsInc[n]
         c == LatestIn(feed[i], e)
     IN /\ c # NoV /\ ~IsDel(c)
        /\ \E x \in CId : x # c /\ CV(x).r = CV(c).r /\ ~IsDel(x)
        /\ feed' = [feed EXCEPT ![i] =
                      Append(@, [pos |-> nextPos[i] + 1, e |-> e, c |-> c, t |-> clock + 2])]
        /\ nextPos' = [nextPos EXCEPT ![i] = @ + 2]
        /\ Log([a |-> "dup", ds |-> n, e |-> e, via |-> OtherContent(c)])
  /\ clock' = clock + 2
  /\ UNCHANGED <<dsInc, nextInc, deletedInc, purgedInc, everStored, metaOf, rd, bk>>

\* deduplicating compaction: drop every entry equal to its immediate
\* predecessor of the same entity; nothing else changes (C12)
RECURSIVE Dedup(_, _)
Dedup(f, out) ==
  IF f = <<>> THEN out
  ELSE IF LatestIn(out, f[1].e) = f[1].c THEN Dedup(Tail(f), out)
       ELSE Dedup(Tail(f), Append(out, f[1]))
Compact(n) ==
  /\ "compact" \in Acts /\ Exists(n)
  /\ feed' = [feed EXCEPT ![dsInc[n]] = Dedup(@, <<>>)]
  /\ Log([a |-> "compact", ds |-> n])
  /\ UNCHANGED <<clock, dsInc, nextInc, deletedInc, purgedInc, nextPos,
                 everStored, metaOf, rd, bk>>

\* C12, "writes in flight while compaction runs": a batch is written to the dataset after the compactor has read
\* the history and before it flushes what it decided (the harness performs the write at the compactor's flush
\* point).  Compaction removes only duplicates and a write never creates one (Apply skips a version equal to the
\* current one), so every serial order gives the same result: the deduplicated feed with the batch applied.
CompactRace(n, b) ==
  /\ "race" \in Acts /\ Exists(n) /\ n \in Writable /\ WriteOk(n, b)
  /\ LET i == dsInc[n]
         r == Apply(Dedup(feed[i], <<>>), nextPos[i], b, clock + 1)
     IN /\ feed' = [feed EXCEPT ![i] = r[1]]
        /\ nextPos' = [nextPos EXCEPT ![i] = r[2]]
        /\ everStored' = [everStored EXCEPT ![i] = @ \cup BatchEnts(b)]
  /\ clock' = clock + 1
  /\ Log([a |-> "race", ds |-> n, b |-> b])
  /\ UNCHANGED <<dsInc, nextInc, deletedInc, purgedInc, metaOf, rd, bk>>

\* a token-carrying reader takes one page of its dataset's feed
ReadPage(r) ==
  /\ "read" \in Acts /\ Exists(r.ds)
  /\ LET pg == Changes(r.ds, rd[r].tok, r.lim, r.lo)
     IN /\ rd' = [rd EXCEPT ![r] = [tok |-> pg.next, acc |-> @.acc \o pg.items]]
        /\ Log([a |-> "read", r |-> r, since |-> rd[r].tok, page |-> pg])
  /\ UNCHANGED <<clock, dsInc, nextInc, deletedInc, purgedInc, feed, nextPos,
                 everStored, metaOf, bk>>

NoBk == [taken |-> FALSE]

\* C20: a backup run makes the backup location hold everything committed so far; restoring it
\* into an empty store must answer every read API as the hub did at that moment.  The required
\* answers (Obs of this state) are logged with the step; the harness restores the location at
\* the end of the behaviour and compares the restored hub with them.
Backup ==
  /\ "backup" \in Acts
  /\ (hist # <<>> \/ Precreated)
  /\ IF bk.taken THEN bk.runs < 4 ELSE TRUE      \* idle runs (backup right after backup) included
  /\ bk' = [taken |-> TRUE, runs |-> (IF bk.taken THEN bk.runs + 1 ELSE 1), foreign |-> FALSE,
            clock |-> clock, dsInc |-> dsInc, deletedInc |-> deletedInc, feed |-> feed]
  /\ Log([a |-> "backup", obs |-> Obs])
  /\ UNCHANGED <<clock, dsInc, nextInc, deletedInc, purgedInc, feed, nextPos, everStored, metaOf, rd>>

\* a different store tries to back up into this location: must be refused, location untouched
ForeignBackup ==
  /\ "foreign" \in Acts /\ bk.taken
  /\ IF bk.taken THEN ~bk.foreign ELSE FALSE
  /\ bk' = [bk EXCEPT !.foreign = TRUE]
  /\ Log([a |-> "foreign"])
  /\ UNCHANGED <<clock, dsInc, nextInc, deletedInc, purgedInc, feed, nextPos, everStored, metaOf, rd>>

Init ==
  /\ clock = 0
  /\ dsInc = [n \in DsName |-> 0]
  /\ nextInc = 1
  /\ deletedInc = {} /\ purgedInc = {}
  /\ feed = [i \in Inc |-> <<>>]
  /\ nextPos = [i \in Inc |-> 0]
  /\ everStored = [i \in Inc |-> {}]
  /\ metaOf = [n \in DsName |-> "none"]
  /\ rd = [r \in Readers |-> [tok |-> 0, acc |-> <<>>]]
  /\ bk = NoBk
  /\ pre = <<>>
  /\ hist = <<>>

\* all datasets of DsName pre-created (configs without management actions)
InitCreated ==
  /\ clock = 0
  /\ dsInc = [n \in DsName |-> CHOOSE k \in 1..Len(DsSeq) : DsSeq[k] = n]
  /\ nextInc = Cardinality(DsName) + 1
  /\ deletedInc = {} /\ purgedInc = {}
  /\ feed = [i \in Inc |-> <<>>]
  /\ nextPos = [i \in Inc |-> 0]
  /\ everStored = [i \in Inc |-> {}]
  /\ metaOf = [n \in DsName |-> "live"]
  /\ rd = [r \in Readers |-> [tok |-> 0, acc |-> <<>>]]
  /\ bk = NoBk
  /\ pre = <<>>
  /\ hist = <<>>

Next ==
  /\ Steps < MaxSteps
  /\ \/ ("store" \in Acts /\ \E n \in DsName, b \in Batches : StoreBatch(n, b))
     \/ ("reject" \in Acts /\ \E n \in DsName, b \in Batches : Len(b) = 1 /\ RejectBatch(n, b))
     \/ ("race" \in Acts /\ \E n \in DsName, b \in Batches : Len(b) = 1 /\ CompactRace(n, b))
     \/ ("txn" \in Acts /\ \E n1, n2 \in DsName, x1, x2 \in Ent \X CId : ExecTxn(n1, x1, n2, x2))
     \/ Tick
     \/ \E n \in DsName : CreateDs(n) \/ DeleteDs(n) \/ Compact(n)
     \/ \E n, m \in DsName : RenameDs(n, m)
     \/ \E n \in DsName, e \in Ent : InjectDup(n, e)
     \/ GC \/ Restart \/ Backup \/ ForeignBackup \/ LsmCompact
     \/ \E r \in Readers : ReadPage(r)

Spec == Init /\ [][Next]_vars
SpecCreated == InitCreated /\ [][Next]_vars

\* Sampled exploration for deep histories: every state keeps Fan randomly chosen
\* action instances (see RE below; reproducible for a given Seed).  The filter
\* sits inside Next, so only kept successors are generated and emitted.
\* TLC's RandomElement ignores -seed in model-checking mode (measured), so the choice is made by a small
\* Lehmer generator kept in TLC register 7: with ONE worker the breadth-first order, hence the whole sample, is a
\* function of Seed (overridden per run from VERIF_SEED).
Seed == 1
ASSUME TLCSet(7, (Seed % 65000) + 1)
Rnd == LET n == (TLCGet(7) * 17364) % 65521 IN IF TLCSet(7, n) THEN n ELSE 0
RE(S) == LET q == SetToSeq(IF Steps >= 0 THEN S ELSE {}) IN { q[(Rnd % Len(q)) + 1] }   \* state-level on purpose: no constant folding
DeadNames == DsName \ LiveNames
KindsNow ==
  { k \in Acts :
      \/ k \in {"delete", "compact", "dup"} /\ LiveNames # {}
      \/ k = "store" /\ LiveNames \cap Writable # {}
      \/ k = "reject" /\ LiveNames \cap Writable # {}
      \/ k = "race" /\ LiveNames \cap Writable # {}
      \/ k = "txn" /\ Cardinality(LiveNames \cap Writable) >= 2
      \/ k = "create" /\ DeadNames # {} /\ nextInc <= MaxInc
      \/ k = "rename" /\ LiveNames # {} /\ DeadNames # {}
      \/ k = "tick"
      \/ k = "read" /\ Readers # {}
      \/ k = "gc" /\ purgedInc # deletedInc
      \/ k = "restart" /\ hist # <<>>
      \/ k = "lsm" /\ hist # <<>> /\ \A i \in 1..Len(hist) : hist[i].a # "lsm"
      \/ k = "backup" /\ (hist # <<>> \/ Precreated)
      \/ k = "foreign" /\ bk.taken }
NextSample ==
  /\ Steps < MaxSteps
  /\ KindsNow # {}
  /\ \E j \in 1..Fan :
      \E kind \in RE(KindsNow) :
        \/ kind = "store" /\ Allowed = {} /\ \E n \in RE(LiveNames \cap Writable), b \in RE(Batches) : StoreBatch(n, b)
        \/ kind = "store" /\ Allowed # {} /\
             \E a1 \in RE({ x \in Allowed : x[1] \in LiveNames \cap Writable }) :
               \/ StoreBatch(a1[1], <<<<a1[2], a1[3]>>>>)
               \/ (MaxBatch > 1 /\ \E a2 \in RE({ x \in Allowed : x[1] = a1[1] }) :
                      StoreBatch(a1[1], <<<<a1[2], a1[3]>>, <<a2[2], a2[3]>>>>))
        \/ kind = "reject" /\ \E n \in RE(LiveNames \cap Writable), x \in RE(Ent \X CId) :
                                RejectBatch(n, <<x>>)
        \/ kind = "race" /\ \E n \in RE(LiveNames \cap Writable), x \in RE(Ent \X CId) :
                              CompactRace(n, <<x>>)
        \/ kind = "txn" /\ \E n1 \in RE(LiveNames \cap Writable) : \E n2 \in RE((LiveNames \cap Writable) \ {n1}) :
                             \E x1 \in RE(Ent \X CId), x2 \in RE(Ent \X CId) :
                               IF DsIdx(n1) < DsIdx(n2) THEN ExecTxn(n1, x1, n2, x2) ELSE ExecTxn(n2, x2, n1, x1)
        \/ kind = "tick" /\ Tick
        \/ kind = "create" /\ \E n \in RE(DeadNames) : CreateDs(n)
        \/ kind = "delete" /\ \E n \in RE(LiveNames) : DeleteDs(n)
        \/ kind = "compact" /\ \E n \in RE(LiveNames) : Compact(n)
        \/ kind = "rename" /\ \E n \in RE(LiveNames), m \in RE(DeadNames) : RenameDs(n, m)
        \/ kind = "dup" /\ \E n \in RE(LiveNames), e \in RE(Ent) : InjectDup(n, e)
        \/ kind = "read" /\ \E r \in RE(Readers) : ReadPage(r)
        \/ kind = "gc" /\ GC
        \/ kind = "restart" /\ Restart
        \/ kind = "lsm" /\ LsmCompact
        \/ kind = "backup" /\ Backup
        \/ kind = "foreign" /\ ForeignBackup
SpecSample == Init /\ [][NextSample]_vars
SpecCreatedSample == InitCreated /\ [][NextSample]_vars

-----------------------------------------------------------------------------
(* Invariants and action properties of the reference (design-level checks). *)
(* They state the listed properties over the abstract state, so that TLC    *)
(* confirms the reference itself is consistent with them in every reachable *)
(* state; the code is held to the reference by replay.                      *)

TypeOK ==
  /\ clock \in Nat
  /\ \A n \in DsName : dsInc[n] \in 0..MaxInc
  /\ deletedInc \subseteq Inc /\ purgedInc \subseteq deletedInc

\* C01: the latest view is the last accepted version; each id once
LatestIsLast ==
  \A n \in LiveNames :
    LET f == F(n) IN
      /\ \A x, y \in Entities(n) : x[1] = y[1] => x = y
      /\ \A e \in EntsIn(f) : <<e, f[Max(Idx(f, e))].c>> \in Entities(n)

\* C02: the store path never writes a version equal to its predecessor ...
NoAdjacentDupUnlessInjected ==
  ("dup" \notin Acts) =>
    \A i \in Inc : \A k \in 1..Len(feed[i]) :
      LET f == feed[i] IN LatestIn(SubSeq(f, 1, k - 1), f[k].e) # f[k].c
\* ... positions strictly increase ...
PosIncreasing ==
  \A i \in Inc : \A k \in 1..Len(feed[i]) :
     /\ feed[i][k].pos < nextPos[i]
     /\ k > 1 => feed[i][k - 1].pos < feed[i][k].pos
\* ... and following tokens with limit 1 yields the unpaged answer
RECURSIVE Walk(_, _, _, _)
Walk(f, since, lim, lo) ==
  LET pg == ChangesIn(f, since, lim, lo)
  IN IF pg.items = <<>> THEN <<>> ELSE pg.items \o Walk(f, pg.next, lim, lo)
FeedPagingExact ==
  \A i \in Inc : \A lo \in BOOLEAN : \A lim \in {1, 2} :
     Walk(feed[i], 0, lim, lo) = ChangesIn(feed[i], 0, 0, lo).items
TokenAtEndStable ==
  \A i \in Inc : \A lo \in BOOLEAN :
     LET e == ChangesIn(feed[i], 0, 0, lo).next
     IN ChangesIn(feed[i], e, 0, lo) = [items |-> <<>>, next |-> e]
\* a non-latest-only reader's accumulated output is a prefix of the feed
ReaderPrefix ==
  \A r \in Readers : Exists(r.ds) /\ ~r.lo =>
     IsPrefix(rd[r].acc, ChangesIn(F(r.ds), 0, 0, FALSE).items)

\* C03: incoming is the transpose of outgoing
InIsTransposeOfOut ==
  \A s, o \in Ent : \A p \in Pred : \A sc \in SUBSET DsName :
     (<<p, o>> \in Out(s, p, sc, clock)) <=> (<<p, s>> \in In(o, p, sc, clock))

\* C06: answers pinned to a past instant never change under entity writes
PastAnswersUnchanged ==
  (hist' # hist /\ hist'[Len(hist')].a \in {"store", "txn", "tick"}) =>
    \A t \in 0..clock : \A e \in Ent : \A sc \in SUBSET DsName :
       /\ Partials(e, sc, t)' = Partials(e, sc, t)
       /\ Out(e, "*", sc, t)' = Out(e, "*", sc, t)
       /\ In(e, "*", sc, t)' = In(e, "*", sc, t)
PastImmutable == [][PastAnswersUnchanged]_vars

\* C07: nothing of a deleted incarnation is visible; incarnations never reused
DeletedInvisible ==
  \A i \in deletedInc : \A n \in DsName : dsInc[n] # i
IncNeverReused == \A n \in DsName : dsInc[n] < nextInc
RecreateIsEmpty ==
  (hist' # hist /\ hist'[Len(hist')].a = "create") =>
     \A n \in DsName : hist'[Len(hist')].ds = n =>
        feed'[dsInc'[n]] = <<>> /\ nextPos'[dsInc'[n]] = 0
RecreateEmpty == [][RecreateIsEmpty]_vars
\* C07 / C12 / C14: maintenance actions change no answer of any other read
MaintInvisibleStep ==
  (hist' # hist /\ hist'[Len(hist')].a \in {"gc", "restart", "compact", "lsm"}) =>
    /\ \A n \in DsName : Exists(n) =>
         /\ Entities(n)' = Entities(n)
         \* compaction keeps the first of a run of identical versions, so the newest version of an
         \* entity may move to an earlier position: the latest-only feed is unchanged as a collection
         /\ ToSet(Changes(n, 0, 0, TRUE)'.items) = ToSet(Changes(n, 0, 0, TRUE).items)
         /\ Len(Changes(n, 0, 0, TRUE)'.items) = Len(Changes(n, 0, 0, TRUE).items)
         /\ hist'[Len(hist')].a # "compact" =>
              \A s \in 0..nextPos[dsInc[n]] : \A lo \in BOOLEAN :
                 Changes(n, s, 0, lo)' = Changes(n, s, 0, lo)
    /\ \A t \in 0..clock : \A e \in Ent : \A sc \in SUBSET DsName :
         /\ Partials(e, sc, t)' = Partials(e, sc, t)
         /\ Out(e, "*", sc, t)' = Out(e, "*", sc, t)
         /\ In(e, "*", sc, t)' = In(e, "*", sc, t)
MaintInvisible == [][MaintInvisibleStep]_vars
\* delete / rename / create leave every other dataset's answers alone
OthersUnaffectedStep ==
  (hist' # hist /\ hist'[Len(hist')].a \in {"create", "delete", "rename"}) =>
    LET h == hist'[Len(hist')]
        touched == IF h.a = "rename" THEN {h.ds, h.to} ELSE {h.ds}
    IN \A n \in DsName \ touched : Exists(n) =>
         /\ Entities(n)' = Entities(n)
         /\ Changes(n, 0, 0, FALSE)' = Changes(n, 0, 0, FALSE)
         /\ \A e \in Ent : \A t \in 0..clock :
               Partials(e, {n}, t)' = Partials(e, {n}, t)
OthersUnaffected == [][OthersUnaffectedStep]_vars

\* C19: catalogue agreement
CatalogueAgrees ==
  \A n \in DsName : (metaOf[n] = "live") <=> Exists(n)

Emit == PrintT(<<"TRACE", ToJson(IF TrackPre THEN [steps |-> hist, obs |-> Obs, pre |-> pre]
                                               ELSE [steps |-> hist, obs |-> Obs])>>)

Header ==
  [ds |-> SetToSeq2(DsName), ent |-> SetToSeq2(Ent), pred |-> SetToSeq2(Pred),
   contents |-> ContentSeq, limits |-> SetToSeq2(Limits),
   kinds |-> SetToSeq2(ObsKinds), acts |-> SetToSeq2(Acts), precreated |-> Precreated]
EmitHeader == PrintT(<<"HEADER", ToJson(Header)>>)
=============================================================================
