------------------------------ MODULE FullSync ------------------------------
(***************************************************************************)
(* C09: full sync of one dataset, driven by HTTP requests carrying the     *)
(* universal-data-api-full-sync-{start,id,end} headers and by fullsync     *)
(* jobs (sink calls startFullSync / processEntities / endFullSync).        *)
(*                                                                         *)
(* REFERENCE (AsIs = FALSE): a sync has an OWNER -- the HTTP sync id that  *)
(* started it, or the job run that started it.  Only the owner's           *)
(* completion deletes, and it deletes exactly the live entities not        *)
(* written since the start.  A sync that was superseded by a later start,  *)
(* abandoned, or whose lease expired, deletes nothing.  Only HTTP syncs    *)
(* have a lease.                                                           *)
(*                                                                         *)
(* AS CODED (AsIs = TRUE): the pinned implementation keeps started / id /  *)
(* lease / seen on the dataset without an owner: a plain write during a    *)
(* job sync creates a lease for the job's sync (id ""), whose expiry       *)
(* resets the seen-set under the job; and completion by a job does not     *)
(* check that the running sync is the job's.  These are the two recorded   *)
(* findings of C09 (known_findings.json); the as-coded variant predicts    *)
(* exactly what the code answers there, so anything else is still a        *)
(* violation.  Both variants have the same actions with the same enabling  *)
(* conditions, so the same behaviour can be judged against both.           *)
(***************************************************************************)
EXTENDS Datahub

CONSTANTS AsIs,      \* FALSE: reference; TRUE: as the pinned code behaves
          SyncIds,   \* HTTP sync ids, e.g. {"s1", "s2"}
          FsDs       \* the dataset under full sync

VARIABLES owner,     \* reference: <<"none">> | <<"http", id>> | <<"job", run>>
          started, fsid, lease, seen,  \* as the code keeps them (seen is shared by both variants)
          jobRun     \* number of job syncs started so far (run ids)

fvars == <<vars, owner, started, fsid, lease, seen, jobRun>>
fview == <<view, owner, started, fsid, lease, seen, jobRun>>

None == <<"none">>
Inc0 == dsInc[FsDs]

\* mark every live entity not in s as deleted (one batch, in entity order)
RECURSIVE Tomb(_, _, _, _, _)
Tomb(f, np, es, s, t) ==
  IF es = <<>> THEN <<f, np>>
  ELSE LET e == es[1]
           c == LatestIn(f, e)
       IN IF c # NoV /\ ~IsDel(c) /\ e \notin s
            THEN LET x == CHOOSE y \in CId : CV(y) = [CV(c) EXCEPT !.d = TRUE]
                     r == Apply(f, np, <<<<e, x>>>>, t)
                 IN Tomb(r[1], r[2], Tail(es), s, t)
            ELSE Tomb(f, np, Tail(es), s, t)
EntOrderF == SetToSeq(Ent)

SyncActive == IF AsIs THEN started ELSE owner # None

\* write batch b (possibly empty), count it into the running sync, optionally complete with seen-set s
Write(b, complete, reset) ==
  LET i == Inc0
      r == Apply(feed[i], nextPos[i], b, clock + 1)
      s2 == IF SyncActive THEN seen \cup BatchEnts(b) ELSE seen
      fin == IF complete THEN Tomb(r[1], r[2], EntOrderF, s2, clock + 1) ELSE r
  IN /\ feed' = [feed EXCEPT ![i] = fin[1]]
     /\ nextPos' = [nextPos EXCEPT ![i] = fin[2]]
     /\ everStored' = [everStored EXCEPT ![i] = @ \cup BatchEnts(b)]
     /\ seen' = IF reset THEN {} ELSE s2
     /\ clock' = clock + 1

NoWrite == UNCHANGED <<feed, nextPos, everStored, seen, clock>>

FsBatches == {<<>>} \cup Batches

\* one HTTP POST /datasets/{ds}/entities with full-sync headers
HttpReq(id, start, end, b) ==
  /\ "http" \in Acts /\ Exists(FsDs)
  /\ start => id # ""
  /\ LET afterStart == start
         \* who may proceed (documented protocol of the handler)
         \* (with no sync running the handler stores whatever arrives as a plain write, id or not)
         accepted ==
           IF start THEN TRUE
           ELSE IF AsIs
                  THEN IF started THEN id = fsid ELSE TRUE
                  ELSE IF owner = None THEN TRUE
                       ELSE IF owner[1] = "http" THEN id = owner[2] ELSE id = ""
         \* does a lease exist when the end header is processed?
         hasLease == IF start THEN TRUE
                     ELSE IF AsIs THEN (lease \/ (started /\ id = fsid))      \* refresh creates one
                          ELSE (owner # None /\ owner[1] = "http")
         mine == IF start THEN TRUE
                 ELSE IF AsIs THEN started /\ id = fsid
                      ELSE owner # None /\ owner[1] = "http" /\ id = owner[2]
         completes == end /\ accepted /\ hasLease /\ (IF AsIs THEN TRUE ELSE mine)
         status == IF ~accepted THEN 409 ELSE IF end /\ ~hasLease THEN 410 ELSE 200
     IN /\ IF ~accepted
             THEN /\ NoWrite
                  /\ UNCHANGED <<owner, started, fsid, lease>>
             ELSE /\ owner' = IF completes THEN None ELSE IF start THEN <<"http", id>> ELSE owner
                  /\ started' = IF completes THEN FALSE ELSE IF start THEN TRUE ELSE started
                  /\ fsid' = IF completes THEN "" ELSE IF start THEN id ELSE fsid
                  /\ lease' = IF completes THEN FALSE
                              ELSE IF start THEN TRUE
                              ELSE IF AsIs THEN (lease \/ (started /\ id = fsid)) ELSE lease
                  /\ IF start
                       THEN \* a start resets the seen-set before the batch is counted
                            LET i == Inc0
                                r == Apply(feed[i], nextPos[i], b, clock + 1)
                                s2 == BatchEnts(b)
                                fin == IF completes THEN Tomb(r[1], r[2], EntOrderF, s2, clock + 1) ELSE r
                            IN /\ feed' = [feed EXCEPT ![i] = fin[1]]
                               /\ nextPos' = [nextPos EXCEPT ![i] = fin[2]]
                               /\ everStored' = [everStored EXCEPT ![i] = @ \cup BatchEnts(b)]
                               /\ seen' = IF completes THEN {} ELSE s2
                               /\ clock' = clock + 1
                       ELSE Write(b, completes, completes)
        /\ Log([a |-> "http", ds |-> FsDs, id |-> id, start |-> start, end |-> end, b |-> b, x |-> [status |-> status, own |-> owner[1]]])
  /\ UNCHANGED <<dsInc, nextInc, deletedInc, purgedInc, metaOf, rd, bk, jobRun>>

\* the lease of the running sync times out
Expire ==
  /\ "expire" \in Acts /\ Exists(FsDs)
  /\ LET fires == IF AsIs THEN lease ELSE (owner # None /\ owner[1] = "http")
     IN /\ owner' = IF fires THEN None ELSE owner
        /\ started' = IF fires THEN FALSE ELSE started
        /\ fsid' = IF fires THEN "" ELSE fsid
        /\ lease' = IF fires THEN FALSE ELSE lease
        /\ seen' = IF fires THEN {} ELSE seen
        /\ Log([a |-> "expire", ds |-> FsDs, x |-> [fires |-> fires]])
  /\ UNCHANGED <<clock, dsInc, nextInc, deletedInc, purgedInc, feed, nextPos, everStored, metaOf, rd, bk, jobRun>>

\* a fullsync job starts its sync on the sink dataset (supersedes whatever is running)
JobStart ==
  /\ "jobsync" \in Acts /\ Exists(FsDs) /\ jobRun < 2
  /\ jobRun' = jobRun + 1
  /\ owner' = <<"job", jobRun + 1>>
  /\ started' = TRUE /\ fsid' = "" /\ lease' = FALSE /\ seen' = {}
  /\ Log([a |-> "jobstart", ds |-> FsDs, run |-> jobRun + 1])
  /\ UNCHANGED <<clock, dsInc, nextInc, deletedInc, purgedInc, feed, nextPos, everStored, metaOf, rd, bk>>

\* the job's sink writes a batch (no id check: a direct write)
JobBatch(run, b) ==
  /\ "jobsync" \in Acts /\ Exists(FsDs) /\ run \in 1..jobRun /\ b # <<>>
  /\ Write(b, FALSE, FALSE)
  /\ Log([a |-> "jobbatch", ds |-> FsDs, run |-> run, b |-> b])
  /\ UNCHANGED <<owner, started, fsid, lease, dsInc, nextInc, deletedInc, purgedInc, metaOf, rd, bk, jobRun>>

\* the job ends its sync
JobEnd(run) ==
  /\ "jobsync" \in Acts /\ Exists(FsDs) /\ run \in 1..jobRun
  /\ LET mine == owner = <<"job", run>>
         completes == IF AsIs THEN TRUE ELSE mine
     IN /\ IF completes
             THEN /\ Write(<<>>, TRUE, TRUE)
                  /\ owner' = None /\ started' = FALSE /\ fsid' = "" /\ lease' = FALSE
             ELSE /\ NoWrite
                  /\ UNCHANGED <<owner, started, fsid, lease>>
        /\ Log([a |-> "jobend", ds |-> FsDs, run |-> run, x |-> [completes |-> completes, own |-> owner[1]]])
  /\ UNCHANGED <<dsInc, nextInc, deletedInc, purgedInc, metaOf, rd, bk, jobRun>>

FInit ==
  /\ InitCreated
  /\ owner = None /\ started = FALSE /\ fsid = "" /\ lease = FALSE /\ seen = {} /\ jobRun = 0

HttpShapes == { <<id, st, en>> \in (SyncIds \cup {""}) \X BOOLEAN \X BOOLEAN : st => id # "" }

FNext ==
  /\ Steps < MaxSteps
  /\ \/ \E sh \in HttpShapes, b \in FsBatches : HttpReq(sh[1], sh[2], sh[3], b)
     \/ Expire
     \/ JobStart
     \/ \E run \in 1..2, b \in Batches : JobBatch(run, b)
     \/ \E run \in 1..2 : JobEnd(run)

FNextSample ==
  /\ Steps < MaxSteps
  /\ \E k \in 1..Fan :
       \E kind \in RE({"http", "http", "http", "expire", "jobstart", "jobbatch", "jobend"}) :
         \/ kind = "http" /\ \E sh \in RE(HttpShapes), b \in RE(FsBatches) : HttpReq(sh[1], sh[2], sh[3], b)
         \/ kind = "expire" /\ Expire
         \/ kind = "jobstart" /\ JobStart
         \/ kind = "jobbatch" /\ jobRun > 0 /\ \E run \in RE(1..2), b \in RE(Batches) : JobBatch(run, b)
         \/ kind = "jobend" /\ jobRun > 0 /\ \E run \in RE(1..2) : JobEnd(run)

FSpec == FInit /\ [][FNext]_fvars
FSpecSample == FInit /\ [][FNextSample]_fvars

-----------------------------------------------------------------------------
(* Properties of the reference (checked with AsIs = FALSE) *)

LastStep == hist'[Len(hist')]
\* a completed sync leaves exactly the entities written since its start live (with their last
\* content), and marks every other previously live entity deleted
CompleteExact ==
  (hist' # hist /\ ((LastStep.a = "http" /\ LastStep.x.status = 200 /\ LastStep.end /\ owner # None /\ owner' = None)
                    \/ (LastStep.a = "jobend" /\ LastStep.x.completes))) =>
    \A e \in Ent :
      LET c0 == LatestIn(feed[Inc0], e)
          c1 == LatestIn(feed'[Inc0], e)
      IN IF e \in seen \/ (LastStep.a = "http" /\ e \in BatchEnts(LastStep.b))
           THEN TRUE
           ELSE (c0 # NoV /\ ~IsDel(c0)) => (c1 # NoV /\ IsDel(c1))
\* a request that is rejected, an expiry, and the end of a sync that is not the owner's change no data
DeadSyncDeletesNothing ==
  (hist' # hist /\ ((LastStep.a = "http" /\ LastStep.x.status = 409) \/ LastStep.a = "expire"
                    \/ (LastStep.a = "jobend" /\ ~LastStep.x.completes))) => feed' = feed
FsProps == [][CompleteExact /\ DeadSyncDeletesNothing]_fvars
=============================================================================
