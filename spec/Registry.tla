------------------------------ MODULE Registry ------------------------------
(***************************************************************************)
(* C14 (beyond entities): everything else a hub remembers.                 *)
(*                                                                         *)
(* The hub keeps registries of named objects: job definitions (with a      *)
(* paused flag, a continuation token and a run history), login providers,  *)
(* content objects, and datasets with creation-time settings (proxy,       *)
(* virtual, public namespaces).  REFERENCE: each registry is a partial map *)
(* name -> value, changed only by its own operations; Restart changes      *)
(* nothing.  TLC enumerates every operation sequence of the box; the       *)
(* harness executes it on a real hub (scheduler started, provider manager, *)
(* content service, dataset manager over one store), compares what the     *)
(* reference determines after every step (presence, value, paused flag),   *)
(* and at every Restart compares the COMPLETE observable projection        *)
(* (configurations, tokens, history, cron entries, settings, catalogue     *)
(* entities, namespaces) taken before closing with the one after opening.  *)
(***************************************************************************)
EXTENDS Integers, Sequences, FiniteSets, TLC, Json

CONSTANTS JobIds, ProvIds, ContIds, DsIds,
          DsKinds,     \* creation-time settings of a dataset: "plain", "proxy", "virtual", "publicns"
          MaxSteps

VARIABLES jobs,      \* id -> [present, v, paused, ran]
          provs,     \* id -> 0 (absent) | v
          conts,     \* id -> 0 | v
          dss,       \* id -> "" (absent) | kind
          restarts,  \* number of restarts so far (in the view: Restart changes nothing else)
          rhist
rvars == <<jobs, provs, conts, dss, restarts, rhist>>
rview == <<jobs, provs, conts, dss, restarts>>

NoJob == [present |-> FALSE, v |-> 0, paused |-> FALSE, ran |-> FALSE]
Log(r) == rhist' = Append(rhist, r)

Init ==
  /\ jobs = [j \in JobIds |-> NoJob]
  /\ provs = [p \in ProvIds |-> 0]
  /\ conts = [c \in ContIds |-> 0]
  /\ dss = [d \in DsIds |-> ""]
  /\ restarts = 0
  /\ rhist = <<>>

\* Values count up (first definition 1, every replacement the next one, at most 3): the view hides the history,
\* and this way a state holding value 2 can only be reached through a replacement.
\* adding an existing id replaces the definition; token and history belong to the id and stay
JobAdd(j) ==
  /\ jobs[j].v < 3
  /\ jobs' = [jobs EXCEPT ![j] = [present |-> TRUE, v |-> @.v + 1, paused |-> FALSE, ran |-> @.ran]]
  /\ Log([a |-> "jobadd", id |-> j, v |-> jobs[j].v + 1]) /\ UNCHANGED <<provs, conts, dss, restarts>>
JobDel(j) ==
  /\ jobs[j].present
  /\ jobs' = [jobs EXCEPT ![j] = NoJob]
  /\ Log([a |-> "jobdel", id |-> j]) /\ UNCHANGED <<provs, conts, dss, restarts>>
JobPause(j, p) ==
  /\ jobs[j].present /\ jobs[j].paused # p
  /\ jobs' = [jobs EXCEPT ![j].paused = p]
  /\ Log([a |-> IF p THEN "jobpause" ELSE "jobunpause", id |-> j]) /\ UNCHANGED <<provs, conts, dss, restarts>>
JobRun(j) ==
  /\ jobs[j].present
  /\ jobs' = [jobs EXCEPT ![j].ran = TRUE]
  /\ Log([a |-> "jobrun", id |-> j]) /\ UNCHANGED <<provs, conts, dss, restarts>>
JobReset(j) ==
  /\ jobs[j].present /\ jobs[j].ran
  /\ Log([a |-> "jobreset", id |-> j]) /\ UNCHANGED <<jobs, provs, conts, dss, restarts>>

ProvPut(p) == /\ provs[p] < 3 /\ provs' = [provs EXCEPT ![p] = @ + 1]
              /\ Log([a |-> "provput", id |-> p, v |-> provs[p] + 1]) /\ UNCHANGED <<jobs, conts, dss, restarts>>
ProvDel(p) == /\ provs[p] # 0 /\ provs' = [provs EXCEPT ![p] = 0]
              /\ Log([a |-> "provdel", id |-> p]) /\ UNCHANGED <<jobs, conts, dss, restarts>>
ContPut(c) == /\ conts[c] < 3 /\ conts' = [conts EXCEPT ![c] = @ + 1]
              /\ Log([a |-> "contput", id |-> c, v |-> conts[c] + 1]) /\ UNCHANGED <<jobs, provs, dss, restarts>>
ContDel(c) == /\ conts[c] # 0 /\ conts' = [conts EXCEPT ![c] = 0]
              /\ Log([a |-> "contdel", id |-> c]) /\ UNCHANGED <<jobs, provs, dss, restarts>>
\* creating a dataset that exists changes nothing (the settings of the first creation stay)
DsCreate(d, k) == /\ dss' = [dss EXCEPT ![d] = IF @ = "" THEN k ELSE @]
                  /\ Log([a |-> "dscreate", id |-> d, kind |-> k]) /\ UNCHANGED <<jobs, provs, conts, restarts>>
DsDelete(d) == /\ dss[d] # "" /\ dss' = [dss EXCEPT ![d] = ""]
               /\ Log([a |-> "dsdelete", id |-> d]) /\ UNCHANGED <<jobs, provs, conts, restarts>>
Restart == /\ restarts < 2 /\ rhist # <<>> /\ rhist[Len(rhist)].a # "restart"
           /\ restarts' = restarts + 1
           /\ Log([a |-> "restart"]) /\ UNCHANGED <<jobs, provs, conts, dss>>

Next ==
  /\ Len(rhist) < MaxSteps
  /\ \/ \E j \in JobIds : JobAdd(j) \/ JobDel(j) \/ JobPause(j, TRUE) \/ JobPause(j, FALSE)
                           \/ JobRun(j) \/ JobReset(j)
     \/ \E p \in ProvIds : ProvPut(p) \/ ProvDel(p)
     \/ \E c \in ContIds : ContPut(c) \/ ContDel(c)
     \/ \E d \in DsIds : (\E k \in DsKinds : DsCreate(d, k)) \/ DsDelete(d)
     \/ Restart
Spec == Init /\ [][Next]_rvars

\* the reference's own property: a restart changes no registry
RestartKeeps == [][rhist' # rhist /\ rhist'[Len(rhist')].a = "restart" => <<jobs, provs, conts, dss>>' = <<jobs, provs, conts, dss>>]_rvars

REmit == PrintT(<<"RTRACE", ToJson([steps |-> rhist,
                                    jobs |-> [j \in JobIds |-> jobs[j]],
                                    provs |-> provs, conts |-> conts, dss |-> dss])>>)
=============================================================================
