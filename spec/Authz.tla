-------------------------------- MODULE Authz --------------------------------
(***************************************************************************)
(* C16 REFERENCE: which requests may be served.                            *)
(*   - open routes are always served;                                      *)
(*   - otherwise the bearer token must be valid (signature by an accepted  *)
(*     key, RS256, unexpired, accepted issuer AND audience): else 401;     *)
(*   - an admin token is served;                                           *)
(*   - a client token is served iff no ACL entry of the client that        *)
(*     matches path and needed action is a deny, and some matching entry   *)
(*     is an allow.  Needed action: read for GET/HEAD/OPTIONS, write for   *)
(*     every other method; a write entry also covers read; an entry        *)
(*     matches a path exactly or, with a trailing *, as a prefix           *)
(*     (MatchPairs, computed from the strings by the driver).              *)
(* TLC enumerates the whole box of (request, token kind / ACL set) as      *)
(* initial states and checks the meta-properties of the decision; the      *)
(* harness sends every case through the real router and middleware chain.  *)
(***************************************************************************)
EXTENDS Integers, Sequences, FiniteSets, TLC, Json, FiniteSetsExt

CONSTANTS Requests,    \* set of [id, method, path, open]
          Entries,     \* set of [id, res, action, deny]
          MatchPairs,  \* set of <<res, path>>: the ACL resource string matches the request path
          TokenKinds,  \* "valid" and the token defects
          MaxAcl       \* ACL sets of up to this many entries

VARIABLES req, tok, role, acl
avars == <<req, tok, role, acl>>

Needed(method) == IF method \in {"GET", "HEAD", "OPTIONS"} THEN "read" ELSE "write"
Covers(entryAction, needed) == entryAction = needed \/ (needed = "read" /\ entryAction = "write")
Applies(e, r) == <<e.res, r.path>> \in MatchPairs /\ Covers(e.action, Needed(r.method))

Decision(r, t, ro, a) ==
  IF r.open THEN "served"
  ELSE IF t # "valid" THEN "401"
  ELSE IF ro = "admin" THEN "served"
  ELSE IF \E e \in a : e.deny /\ Applies(e, r) THEN "403"
  ELSE IF \E e \in a : ~e.deny /\ Applies(e, r) THEN "served"
  ELSE "403"

AclSets == UNION { kSubset(k, Entries) : k \in 0..MaxAcl }

Init ==
  /\ req \in Requests
  /\ \/ (tok \in TokenKinds /\ role = "client" /\ acl = {})
     \/ (tok = "valid" /\ role = "admin" /\ acl = {})
     \/ (tok = "valid" /\ role = "client" /\ acl \in AclSets)
Next == UNCHANGED avars
Spec == Init /\ [][Next]_avars

D == Decision(req, tok, role, acl)
\* meta-properties of the reference
DenyWins == (~req.open /\ tok = "valid" /\ role = "client" /\ (\E e \in acl : e.deny /\ Applies(e, req))) => D = "403"
ReadNeverMutates ==
  (~req.open /\ tok = "valid" /\ role = "client" /\ Needed(req.method) = "write"
     /\ (\A e \in acl : e.action = "read")) => D # "served"
NoTokenNoService == (~req.open /\ tok # "valid") => D = "401"
Monotone == \A e \in Entries : (~e.deny /\ D = "served" /\ role = "client") => Decision(req, tok, role, acl \cup {e}) = "served"

\* What a served dataset list may show: a response must not go beyond what the caller may ask for directly, so the
\* list contains exactly the datasets whose own path the caller may GET (deny entries win there too).
DsPaths == {"/datasets/a", "/datasets/b"}   \* the datasets of the driver's universe
Listed == IF req.method = "GET" /\ req.path = "/datasets" /\ D = "served"
            THEN { x.path : x \in { y \in Requests : y.method = "GET" /\ y.path \in DsPaths
                                                      /\ Decision(y, tok, role, acl) = "served" } }
            ELSE {}
ListWithinGrants == \A pth \in Listed : \E y \in Requests : y.path = pth /\ y.method = "GET" /\ Decision(y, tok, role, acl) = "served"

EmitCase == PrintT(<<"ACASE", ToJson([req |-> req.id, tok |-> tok, role |-> role,
                                        acl |-> { e.id : e \in acl }, d |-> D, list |-> Listed])>>)

=============================================================================
