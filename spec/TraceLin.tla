------------------------------ MODULE TraceLin ------------------------------
(***************************************************************************)
(* Trace validation for C05 (and the concurrent part of C19).              *)
(* A stress run of the REAL hub (concurrent batch writers, two-dataset     *)
(* transactions, readers, dataset create/delete) is recorded as NDJSON:    *)
(*  {"k":"op","c":client,"n":seq,"parts":[[ds,[[e,tag],..]],..]}  an        *)
(*        acknowledged write (batch: one part; transaction: several)       *)
(*  {"k":"pair","tags":[t1,t2]}   two values one single read call returned *)
(*        for things only ever written together (batch / transaction)      *)
(*  {"k":"page","ds":d,"n":len}   length of a feed read from the start     *)
(*  {"k":"lock","g":goroutine,"ev":"op"|"got"|"rel","name":lock}  hooks    *)
(*  {"k":"feed","ds":d,"items":[[e,tag],..]}   final change feed           *)
(*  {"k":"look"|"list","ds":d,"items":[[e,tag],..]}  final lookups by id /  *)
(*        final listing (follow the feed line of the same dataset)         *)
(*  {"k":"count","ds":d,"items":n}            final items counter (C19)    *)
(*  {"k":"reset"}                                                          *)
(* Phase "load" consumes the lines (checking the pair / lock-order         *)
(* events); phase "lin" must then find a total order of the acknowledged   *)
(* writes that (1) extends every client's own order and (2) yields exactly *)
(* the final feed of every dataset when each write is applied atomically   *)
(* with the reference semantics of Datahub.tla's StoreBatch / ExecTxn      *)
(* (see Fits / ApplyOp for the search reduction that keeps this linear).   *)
(* Acceptance: every line consumed and every acknowledged write applied.   *)
(***************************************************************************)
EXTENDS Integers, Sequences, FiniteSets, TLC, Json, SequencesExt

CONSTANT TraceFile
Trace == ndJsonDeserialize(TraceFile)

VARIABLES phase, l, ops, final, counts, pages, model, cnext, applied, edges, held, bad, bounds

tvars == <<phase, l, ops, final, counts, pages, model, cnext, applied, edges, held, bad, bounds>>

Event == Trace[l]

\* Reference semantics of one batch on one feed (Datahub.tla: Apply): every element is appended, except
\* one that equals the entity's current version.  The driver gives every write its own tag, so no
\* element is ever equal to a current version (UniqueTags, required below): every acknowledged element is one
\* feed entry, and the feed is a witness of the order in which the writes took effect.
LatestTag(f, e) ==
  LET I == { i \in 1..Len(f) : f[i][1] = e } IN IF I = {} THEN "" ELSE f[CHOOSE i \in I : \A j \in I : j <= i][2]

Datasets == DOMAIN final

Load ==
  /\ phase = "load" /\ l <= Len(Trace)
  /\ l' = l + 1
  /\ CASE Event.k = "op" ->
            /\ ops' = [c \in DOMAIN ops \cup {Event.c} |->
                         IF c = Event.c THEN Append(IF c \in DOMAIN ops THEN ops[c] ELSE <<>>, Event.parts) ELSE ops[c]]
            /\ UNCHANGED <<final, counts, pages, edges, held, bad>>
       [] Event.k = "pair" ->
            /\ bad' = (bad \/ Event.tags[1] # Event.tags[2])
            /\ UNCHANGED <<ops, final, counts, pages, edges, held>>
       [] Event.k = "page" ->
            /\ pages' = pages \cup {<<Event.ds, Event.n>>}
            /\ UNCHANGED <<ops, final, counts, edges, held, bad>>
       [] Event.k = "lock" ->
            IF Event.ev = "op"
              THEN /\ held' = [g \in DOMAIN held \cup {Event.g} |-> IF g = Event.g THEN {} ELSE held[g]]
                   /\ UNCHANGED <<ops, final, counts, pages, edges, bad>>
              ELSE IF Event.ev = "rel"
              THEN /\ held' = [g \in DOMAIN held \cup {Event.g} |->
                                  IF g = Event.g THEN (IF g \in DOMAIN held THEN held[g] ELSE {}) \ {Event.name} ELSE held[g]]
                   /\ UNCHANGED <<ops, final, counts, pages, edges, bad>>
              ELSE LET h == IF Event.g \in DOMAIN held THEN held[Event.g] ELSE {}
                   IN /\ edges' = edges \cup { <<x, Event.name>> : x \in h \ {Event.name} }
                      /\ held' = [g \in DOMAIN held \cup {Event.g} |-> IF g = Event.g THEN h \cup {Event.name} ELSE held[g]]
                      /\ UNCHANGED <<ops, final, counts, pages, bad>>
       [] Event.k = "feed" ->
            /\ final' = [d \in DOMAIN final \cup {Event.ds} |-> IF d = Event.ds THEN Event.items ELSE final[d]]
            /\ UNCHANGED <<ops, counts, pages, edges, held, bad>>
       [] Event.k = "look" ->   \* final lookups by id (after the feed of the same dataset): the last written version
            /\ bad' = (bad \/ \E i \in 1..Len(Event.items) :
                                  Event.items[i][2] # LatestTag(final[Event.ds], Event.items[i][1]))
            /\ UNCHANGED <<ops, final, counts, pages, edges, held>>
       [] Event.k = "list" ->   \* final listing: every id of the feed exactly once, with its last written version
            /\ bad' = (bad
                       \/ Cardinality({ Event.items[i][1] : i \in 1..Len(Event.items) }) # Len(Event.items)
                       \/ { Event.items[i][1] : i \in 1..Len(Event.items) }
                            # { final[Event.ds][i][1] : i \in 1..Len(final[Event.ds]) }
                       \/ \E i \in 1..Len(Event.items) :
                             Event.items[i][2] # LatestTag(final[Event.ds], Event.items[i][1]))
            /\ UNCHANGED <<ops, final, counts, pages, edges, held>>
       [] Event.k = "count" ->
            /\ counts' = [d \in DOMAIN counts \cup {Event.ds} |-> IF d = Event.ds THEN Event.items ELSE counts[d]]
            /\ UNCHANGED <<ops, final, pages, edges, held, bad>>
  /\ UNCHANGED <<phase, model, cnext, applied, bounds>>
  /\ TLCSet(1, l)        \* last conjunct: only a line that was consumable moves the high-water mark

\* lock-order graph of the observed acquisitions must be acyclic (a cycle is a possible deadlock)
Names == { e[1] : e \in edges } \cup { e[2] : e \in edges }
RECURSIVE Reach(_, _)
Reach(S, k) == IF k = 0 THEN S ELSE Reach(S \cup { e[2] : e \in { x \in edges : x[1] \in S } }, k - 1)
Acyclic == \A n \in Names : n \notin Reach({ e[2] : e \in { x \in edges : x[1] = n } }, Cardinality(Names))

\* all (dataset, entity, tag) triples of the acknowledged writes, and how many elements were written
Clients == DOMAIN ops
RECURSIVE SumLen(_, _)
SumLen(f, S) == IF S = {} THEN 0 ELSE LET x == CHOOSE x \in S : TRUE IN Len(f[x]) + SumLen(f, S \ {x})
NOps == SumLen(ops, Clients)
Triples == UNION { UNION { UNION { { <<ops[c][k][i][1], ops[c][k][i][2][j]>> : j \in 1..Len(ops[c][k][i][2]) }
                                   : i \in 1..Len(ops[c][k]) } : k \in 1..Len(ops[c]) } : c \in Clients }
RECURSIVE PartLen(_, _)
PartLen(o, i) == IF i = 0 THEN 0 ELSE PartLen(o, i - 1) + Len(o[i][2])
RECURSIVE OpsLen(_, _)
OpsLen(sq, k) == IF k = 0 THEN 0 ELSE OpsLen(sq, k - 1) + PartLen(sq[k], Len(sq[k]))
RECURSIVE CountElems(_)
CountElems(S) == IF S = {} THEN 0 ELSE LET c == CHOOSE c \in S : TRUE IN OpsLen(ops[c], Len(ops[c])) + CountElems(S \ {c})
UniqueTags == Cardinality(Triples) = CountElems(Clients)

StartLin ==
  /\ phase = "load" /\ l > Len(Trace)
  /\ ~bad /\ Acyclic /\ UniqueTags
  /\ phase' = "lin"
  /\ model' = [d \in Datasets |-> 0]          \* number of entries of the final feed explained so far
  /\ cnext' = [c \in Clients |-> 1]
  /\ applied' = 0
  /\ TLCSet(2, 0)
  /\ bounds' = { <<d, 0>> : d \in Datasets }
  /\ UNCHANGED <<l, ops, final, counts, pages, edges, held, bad>>

\* the next write of client c takes effect now: all its parts at once (atomic), each part being exactly the next
\* entries of that dataset's final feed
NextOf(c) == ops[c][cnext[c]]
Fits(o) == \A i \in 1..Len(o) :
             LET d == o[i][1]  part == o[i][2]
             IN /\ d \in Datasets
                /\ model[d] + Len(part) <= Len(final[d])
                /\ \A j \in 1..Len(part) : final[d][model[d] + j] = part[j]
Cand == { c \in Clients : cnext[c] <= Len(ops[c]) /\ Fits(NextOf(c)) }
\* Search reduction.  If the next write o of some client fits now, then in EVERY total order that explains the
\* feeds o precedes all other outstanding writes that touch one of its datasets (tags are unique: nothing else
\* can produce the entries at these positions), it commutes with the writes that do not, and no earlier write of
\* its own client is outstanding; so if any explaining order exists, one exists that applies o first.  It is
\* therefore enough to always apply the candidate of the smallest client: the search is linear and complete.
ApplyOp(c) ==
  /\ phase = "lin" /\ c \in Cand /\ \A c2 \in Cand : c <= c2
  /\ LET o == NextOf(c)
         m2 == [d \in Datasets |-> LET I == { i \in 1..Len(o) : o[i][1] = d }
                                    IN IF I = {} THEN model[d] ELSE model[d] + Len(o[CHOOSE i \in I : TRUE][2])]
     IN /\ model' = m2
        /\ bounds' = bounds \cup { <<d, m2[d]>> : d \in Datasets }
  /\ cnext' = [cnext EXCEPT ![c] = @ + 1]
  /\ applied' = applied + 1
  /\ TLCSet(2, IF TLCGet(2) > applied + 1 THEN TLCGet(2) ELSE applied + 1)
  /\ UNCHANGED <<phase, l, ops, final, counts, pages, edges, held, bad>>

Finish ==
  /\ phase = "lin" /\ applied = NOps
  /\ \A d \in Datasets : model[d] = Len(final[d])
  \* a feed read from the start never ends inside a batch or transaction: its length is a batch boundary
  /\ (\A pg \in pages : pg[1] \in Datasets => pg \in bounds) = TRUE    \* '= TRUE': evaluated as a value, not unfolded
  /\ phase' = "done"
  /\ TLCSet(3, 1)
  /\ UNCHANGED <<l, ops, final, counts, pages, model, cnext, applied, edges, held, bad, bounds>>

Init ==
  /\ phase = "load" /\ l = 1 /\ ops = <<>> /\ final = <<>> /\ counts = <<>> /\ pages = {}
  /\ model = <<>> /\ cnext = <<>> /\ applied = 0 /\ edges = {} /\ held = <<>> /\ bad = FALSE /\ bounds = {}
  /\ TLCSet(1, 0) /\ TLCSet(2, 0) /\ TLCSet(3, 0)

Next == Load \/ StartLin \/ (\E c \in Clients : ApplyOp(c)) \/ Finish
Spec == Init /\ [][Next]_tvars

\* C19 (concurrent counters): the items counter equals the number of distinct ids in the final feed
CountersAgree ==
  phase = "done" => \A d \in DOMAIN counts : d \in Datasets =>
                       counts[d] = Cardinality({ final[d][i][1] : i \in 1..Len(final[d]) })

Accepted == TLCGet(3) = 1
=============================================================================
