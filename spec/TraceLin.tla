------------------------------ MODULE TraceLin ------------------------------
(***************************************************************************)
(* Trace validation for C05 (and the concurrent part of C19).              *)
(* A stress run of the REAL hub (concurrent batch writers, two-dataset     *)
(* transactions, readers, dataset create/delete) is recorded as NDJSON:    *)
(*  {"k":"op","c":client,"n":seq,"parts":[[ds,[[e,tag],..]],..]}  an        *)
(*        acknowledged write (batch: one part; transaction: several)       *)
(*  {"k":"pair","tags":[t1,t2]}   two values one single read call returned *)
(*        for things only ever written together (batch / transaction)      *)
(*  {"k":"page","ds":d,"n":len}   length of a feed read from the start     *)
(*  {"k":"lock","g":goroutine,"ev":"op"|"got"|"rel","name":lock}  hooks    *)
(*  {"k":"feed","ds":d,"items":[[e,tag],..]}   final change feed           *)
(*  {"k":"count","ds":d,"items":n}            final items counter (C19)    *)
(*  {"k":"reset"}                                                          *)
(* Phase "load" consumes the lines (checking the pair / lock-order         *)
(* events); phase "lin" must then find a total order of the acknowledged   *)
(* writes that (1) extends every client's own order and (2) yields exactly *)
(* the final feed of every dataset when each write is applied atomically   *)
(* with the reference semantics of Datahub.tla's StoreBatch / ExecTxn.     *)
(* Acceptance: every line consumed and every acknowledged write applied.   *)
(***************************************************************************)
EXTENDS Integers, Sequences, FiniteSets, TLC, Json, SequencesExt

CONSTANT TraceFile
Trace == ndJsonDeserialize(TraceFile)

VARIABLES phase, l, ops, final, counts, pages, model, cnext, applied, edges, held, bad, bounds

tvars == <<phase, l, ops, final, counts, pages, model, cnext, applied, edges, held, bad, bounds>>

Event == Trace[l]

\* reference semantics of one batch on one feed (Datahub.tla: Apply): an element equal to the
\* entity's current version is skipped
LatestTag(f, e) ==
  LET I == { i \in 1..Len(f) : f[i][1] = e } IN IF I = {} THEN "" ELSE f[CHOOSE i \in I : \A j \in I : j <= i][2]
RECURSIVE ApplyB(_, _)
ApplyB(f, b) ==
  IF b = <<>> THEN f
  ELSE IF LatestTag(f, b[1][1]) = b[1][2] THEN ApplyB(f, Tail(b)) ELSE ApplyB(Append(f, b[1]), Tail(b))

Datasets == DOMAIN final

Load ==
  /\ phase = "load" /\ l <= Len(Trace)
  /\ l' = l + 1
  /\ CASE Event.k = "op" ->
            /\ ops' = ops \cup {[c |-> Event.c, n |-> Event.n, parts |-> Event.parts]}
            /\ UNCHANGED <<final, counts, pages, edges, held, bad>>
       [] Event.k = "pair" ->
            /\ bad' = (bad \/ Event.tags[1] # Event.tags[2])
            /\ UNCHANGED <<ops, final, counts, pages, edges, held>>
       [] Event.k = "page" ->
            /\ pages' = pages \cup {<<Event.ds, Event.n>>}
            /\ UNCHANGED <<ops, final, counts, edges, held, bad>>
       [] Event.k = "lock" ->
            IF Event.ev = "op"
              THEN /\ held' = [g \in DOMAIN held \cup {Event.g} |-> IF g = Event.g THEN {} ELSE held[g]]
                   /\ UNCHANGED <<ops, final, counts, pages, edges, bad>>
              ELSE IF Event.ev = "rel"
              THEN /\ held' = [g \in DOMAIN held \cup {Event.g} |->
                                  IF g = Event.g THEN (IF g \in DOMAIN held THEN held[g] ELSE {}) \ {Event.name} ELSE held[g]]
                   /\ UNCHANGED <<ops, final, counts, pages, edges, bad>>
              ELSE LET h == IF Event.g \in DOMAIN held THEN held[Event.g] ELSE {}
                   IN /\ edges' = edges \cup { <<x, Event.name>> : x \in h \ {Event.name} }
                      /\ held' = [g \in DOMAIN held \cup {Event.g} |-> IF g = Event.g THEN h \cup {Event.name} ELSE held[g]]
                      /\ UNCHANGED <<ops, final, counts, pages, bad>>
       [] Event.k = "feed" ->
            /\ final' = [d \in DOMAIN final \cup {Event.ds} |-> IF d = Event.ds THEN Event.items ELSE final[d]]
            /\ UNCHANGED <<ops, counts, pages, edges, held, bad>>
       [] Event.k = "count" ->
            /\ counts' = [d \in DOMAIN counts \cup {Event.ds} |-> IF d = Event.ds THEN Event.items ELSE counts[d]]
            /\ UNCHANGED <<ops, final, pages, edges, held, bad>>
  /\ UNCHANGED <<phase, model, cnext, applied, bounds>>
  /\ TLCSet(1, l)        \* last conjunct: only a line that was consumable moves the high-water mark

\* lock-order graph of the observed acquisitions must be acyclic (a cycle is a possible deadlock)
Names == { e[1] : e \in edges } \cup { e[2] : e \in edges }
RECURSIVE Reach(_, _)
Reach(S, k) == IF k = 0 THEN S ELSE Reach(S \cup { e[2] : e \in { x \in edges : x[1] \in S } }, k - 1)
Acyclic == \A n \in Names : n \notin Reach({ e[2] : e \in { x \in edges : x[1] = n } }, Cardinality(Names))

StartLin ==
  /\ phase = "load" /\ l > Len(Trace)
  /\ ~bad /\ Acyclic
  /\ phase' = "lin"
  /\ model' = [d \in Datasets |-> <<>>]
  /\ cnext' = [c \in { o.c : o \in ops } |-> 1]
  /\ applied' = 0
  /\ TLCSet(2, 0)
  /\ bounds' = { <<d, 0>> : d \in Datasets }
  /\ UNCHANGED <<l, ops, final, counts, pages, edges, held, bad>>

PartsOn(o, d) == LET I == { i \in 1..Len(o.parts) : o.parts[i][1] = d }
                 IN IF I = {} THEN <<>> ELSE o.parts[CHOOSE i \in I : TRUE][2]

\* apply the next write of some client: all its parts at once (atomic), result must stay a prefix
\* of what the hub really ended up with
ApplyOp(o) ==
  /\ phase = "lin" /\ o \in ops /\ cnext[o.c] = o.n
  /\ LET m2 == [d \in Datasets |-> ApplyB(model[d], PartsOn(o, d))]
     IN /\ \A d \in Datasets : IsPrefix(m2[d], final[d])
        /\ model' = m2
        /\ bounds' = bounds \cup { <<d, Len(m2[d])>> : d \in Datasets }
  /\ cnext' = [cnext EXCEPT ![o.c] = @ + 1]
  /\ applied' = applied + 1
  /\ TLCSet(2, IF TLCGet(2) > applied + 1 THEN TLCGet(2) ELSE applied + 1)
  /\ UNCHANGED <<phase, l, ops, final, counts, pages, edges, held, bad>>

Finish ==
  /\ phase = "lin" /\ applied = Cardinality(ops)
  /\ \A d \in Datasets : model[d] = final[d]
  \* a feed read from the start never ends inside a batch or transaction: its length is a batch boundary
  /\ \A pg \in pages : pg[1] \in Datasets => pg \in bounds
  /\ phase' = "done"
  /\ TLCSet(3, 1)
  /\ UNCHANGED <<l, ops, final, counts, pages, model, cnext, applied, edges, held, bad, bounds>>

Init ==
  /\ phase = "load" /\ l = 1 /\ ops = {} /\ final = <<>> /\ counts = <<>> /\ pages = {}
  /\ model = <<>> /\ cnext = <<>> /\ applied = 0 /\ edges = {} /\ held = <<>> /\ bad = FALSE /\ bounds = {}
  /\ TLCSet(1, 0) /\ TLCSet(2, 0) /\ TLCSet(3, 0)

Next == Load \/ StartLin \/ (\E o \in ops : ApplyOp(o)) \/ Finish
Spec == Init /\ [][Next]_tvars

\* C19 (concurrent counters): the items counter equals the number of distinct ids in the final feed
CountersAgree ==
  phase = "done" => \A d \in DOMAIN counts : d \in Datasets =>
                       counts[d] = Cardinality({ final[d][i][1] : i \in 1..Len(final[d]) })

Accepted == TLCGet(3) = 1
=============================================================================
