-------------------------------- MODULE Parser --------------------------------
(***************************************************************************)
(* C15 REFERENCE: which UDA payloads are valid and what they denote.       *)
(* A document is a context followed by entities; every slot of the context *)
(* and of an entity takes a SHAPE from a small alphabet that contains the  *)
(* valid forms and the single-slot type mutations the property names       *)
(* (wrongly typed id, deleted, recorded, namespaces, refs ...), and a      *)
(* document may be cut off (truncated) after any element.                  *)
(* Valid(doc): every slot valid and not truncated -> the hub must store    *)
(* exactly the denoted entities.  Otherwise -> the hub must answer with an *)
(* error, must not panic, and must store nothing assembled from the         *)
(* malformed element or anything after it (the handler flushes every 10     *)
(* entities: what precedes the malformed element may already be stored).    *)
(* TLC enumerates the document box as initial states; the harness renders  *)
(* each document to bytes (and its byte-level truncations), feeds it to    *)
(* the real parser and to POST /datasets/{ds}/entities, and compares.      *)
(***************************************************************************)
EXTENDS Integers, Sequences, FiniteSets, TLC, Json

CONSTANT Deep   \* TRUE: also every entity that differs from E0 in TWO slots, three-element documents, cuts of those

\* shape alphabets: [name |-> ..., ok |-> BOOLEAN]
\* swapped_hub_prefixes: a payload of another hub - the prefix names this hub generated, bound the other way round
CtxShapes == { [n |-> "ok", ok |-> TRUE], [n |-> "ok_default_prefix", ok |-> TRUE], [n |-> "swapped_hub_prefixes", ok |-> TRUE],
               [n |-> "no_namespaces", ok |-> FALSE], [n |-> "namespaces_null", ok |-> FALSE],
               [n |-> "namespaces_array", ok |-> FALSE], [n |-> "namespace_value_number", ok |-> FALSE],
               [n |-> "id_not_context", ok |-> FALSE], [n |-> "missing", ok |-> FALSE] }
IdShapes == { [n |-> "curie", ok |-> TRUE], [n |-> "default_prefix", ok |-> TRUE], [n |-> "absolute_uri", ok |-> TRUE],
              [n |-> "curie_colon_local", ok |-> TRUE],   \* prefix:urn:isbn:x - only the FIRST colon separates the prefix

              [n |-> "number", ok |-> FALSE], [n |-> "null", ok |-> FALSE], [n |-> "object", ok |-> FALSE],
              [n |-> "missing", ok |-> FALSE], [n |-> "unknown_prefix", ok |-> FALSE] }
DelShapes == { [n |-> "absent", ok |-> TRUE], [n |-> "true", ok |-> TRUE], [n |-> "false", ok |-> TRUE],
               [n |-> "string", ok |-> FALSE], [n |-> "number", ok |-> FALSE] }
RecShapes == { [n |-> "absent", ok |-> TRUE], [n |-> "number", ok |-> TRUE], [n |-> "string", ok |-> FALSE] }
PropShapes == { [n |-> "absent", ok |-> TRUE], [n |-> "empty", ok |-> TRUE], [n |-> "scalars", ok |-> TRUE],
                [n |-> "arrays_nested", ok |-> TRUE], [n |-> "nested_entity", ok |-> TRUE],
                [n |-> "empty_arrays", ok |-> TRUE], [n |-> "numbers", ok |-> TRUE],
                [n |-> "array_of_entities", ok |-> TRUE], [n |-> "unicode_escapes", ok |-> TRUE],
                [n |-> "colon_keys", ok |-> TRUE],
                [n |-> "array_instead_of_object", ok |-> FALSE], [n |-> "unknown_prefix_key", ok |-> FALSE] }
RefShapes == { [n |-> "absent", ok |-> TRUE], [n |-> "empty", ok |-> TRUE], [n |-> "single", ok |-> TRUE],
               [n |-> "array", ok |-> TRUE], [n |-> "empty_array", ok |-> TRUE], [n |-> "colon_values", ok |-> TRUE], [n |-> "number_value", ok |-> FALSE], [n |-> "array_with_number", ok |-> FALSE],
               [n |-> "object_value", ok |-> FALSE], [n |-> "unknown_prefix_value", ok |-> FALSE] }

\* the order in which the keys of the entity object are written (JSON objects are unordered: all valid)
OrdShapes == { [n |-> "std", ok |-> TRUE], [n |-> "reversed", ok |-> TRUE], [n |-> "id_last", ok |-> TRUE],
               [n |-> "deleted_first", ok |-> TRUE] }

Pick(S, name) == CHOOSE x \in S : x.n = name
E0 == [id |-> Pick(IdShapes, "curie"), del |-> Pick(DelShapes, "absent"), rec |-> Pick(RecShapes, "absent"),
       props |-> Pick(PropShapes, "scalars"), refs |-> Pick(RefShapes, "absent"), ord |-> Pick(OrdShapes, "std")]
\* every entity that differs from E0 in one slot (valid and invalid variants), and E0 itself
Variants == {E0}
            \cup { [E0 EXCEPT !.id = x] : x \in IdShapes } \cup { [E0 EXCEPT !.del = x] : x \in DelShapes }
            \cup { [E0 EXCEPT !.rec = x] : x \in RecShapes } \cup { [E0 EXCEPT !.props = x] : x \in PropShapes }
            \cup { [E0 EXCEPT !.refs = x] : x \in RefShapes } \cup { [E0 EXCEPT !.ord = x] : x \in OrdShapes }
            \* key orders matter most when the other slots are present
            \cup { [E0 EXCEPT !.ord = x, !.del = Pick(DelShapes, "true"), !.refs = Pick(RefShapes, "array")] : x \in OrdShapes }
Slots == {"id", "del", "rec", "props", "refs", "ord"}
Alphabet(k) == CASE k = "id" -> IdShapes [] k = "del" -> DelShapes [] k = "rec" -> RecShapes
                 [] k = "props" -> PropShapes [] k = "refs" -> RefShapes [] k = "ord" -> OrdShapes
Variants2 == UNION { { [E0 EXCEPT ![k1] = x, ![k2] = y] : x \in Alphabet(k1), y \in Alphabet(k2) }
                     : k1 \in Slots, k2 \in Slots \ {"id"} }
EntOk(e) == e.id.ok /\ e.del.ok /\ e.rec.ok /\ e.props.ok /\ e.refs.ok /\ e.ord.ok
ValidVariants == { e \in Variants : EntOk(e) }

VARIABLES ctx, ents, cut    \* cut = 0: complete document; k > 0: the bytes end after element k (context = 1)
pvars == <<ctx, ents, cut>>

Init ==
  \/ (ctx \in CtxShapes /\ ents \in { <<e>> : e \in Variants } /\ cut = 0)                 \* context shapes x one entity
  \/ (ctx = Pick(CtxShapes, "ok") /\ ents \in { <<E0, e>> : e \in Variants } /\ cut = 0)   \* malformed second element
  \/ (ctx = Pick(CtxShapes, "ok") /\ ents \in { <<e, E0>> : e \in Variants } /\ cut = 0)   \* malformed first element
  \/ (ctx = Pick(CtxShapes, "ok") /\ ents \in { <<a, b>> : a \in ValidVariants, b \in ValidVariants } /\ cut = 0)
  \/ (ctx = Pick(CtxShapes, "ok") /\ ents \in { <<E0, e>> : e \in ValidVariants } /\ cut \in 1..3)
  \/ (ctx = Pick(CtxShapes, "ok") /\ ents = <<>> /\ cut \in 0..1)
  \* documents longer than the handler's flush batch (10 entities): the variant sits after the first flush
  \/ (ctx = Pick(CtxShapes, "ok") /\ cut = 0
       /\ ents \in { [i \in 1..12 |-> IF i = k THEN e ELSE E0] : e \in Variants, k \in (IF Deep THEN {1, 10, 11, 12} ELSE {11, 12}) })
  \/ (ctx = Pick(CtxShapes, "swapped_hub_prefixes") /\ ents \in { <<a, b>> : a \in ValidVariants, b \in ValidVariants } /\ cut = 0)
  \/ (Deep /\ ctx \in {Pick(CtxShapes, "ok"), Pick(CtxShapes, "ok_default_prefix"), Pick(CtxShapes, "swapped_hub_prefixes")}
            /\ ents \in { <<e>> : e \in Variants2 } /\ cut = 0)
  \/ (Deep /\ ctx = Pick(CtxShapes, "ok") /\ ents \in { <<E0, e, E0>> : e \in Variants } /\ cut \in 0..4)
  \/ (Deep /\ ctx \in CtxShapes /\ ents \in { <<a, b>> : a \in ValidVariants, b \in ValidVariants } /\ cut = 0)
Next == UNCHANGED pvars
Spec == Init /\ [][Next]_pvars

Valid == ctx.ok /\ cut = 0 /\ \A i \in 1..Len(ents) : EntOk(ents[i])
\* the reference's own sanity: one bad slot anywhere, or a cut, makes the document invalid
OneBadSlotInvalidates ==
  ((\E i \in 1..Len(ents) : ~EntOk(ents[i])) \/ ~ctx.ok \/ cut # 0) => ~Valid

Shape(e) == [id |-> e.id.n, del |-> e.del.n, rec |-> e.rec.n, props |-> e.props.n, refs |-> e.refs.n, ord |-> e.ord.n]
EmitDoc == PrintT(<<"DOC", ToJson([ctx |-> ctx.n, ents |-> [i \in 1..Len(ents) |-> Shape(ents[i])], cut |-> cut,
                                    valid |-> Valid,
                                    \* position of the first malformed element (0: none): what precedes it may have
                                    \* been stored by an earlier flush, nothing from it or after it may be
                                    bad |-> IF \A i \in 1..Len(ents) : EntOk(ents[i]) THEN 0
                                            ELSE CHOOSE i \in 1..Len(ents) : ~EntOk(ents[i]) /\ \A j \in 1..(i - 1) : EntOk(ents[j]),
                                    \* a transaction payload carries its context under the key "@context": the context
                                    \* object's own id is immaterial there
                                    txvalid |-> (cut = 0 /\ (ctx.ok \/ ctx.n = "id_not_context")
                                                 /\ \A i \in 1..Len(ents) : EntOk(ents[i]))])>>)
=============================================================================
