--------------------------- MODULE TraceNamespace ---------------------------
(***************************************************************************)
(* Trace validation for C13.  The trace (NDJSON, written by the harness    *)
(* from what the REAL code answered) is a list of events                   *)
(*   {"k":"ns", "exp":E, "prefix":P}    a prefix handed out / looked up    *)
(*   {"k":"ctx","pairs":[[P,E],...]}    a context snapshot                 *)
(*   {"k":"ctxall", same}               a snapshot taken at quiescence     *)
(*   {"k":"id", "uri":U, "id":N}        an internal id handed out          *)
(*   {"k":"rt", "uri":U, "back":B}      compact-then-expand round trip     *)
(*   {"k":"reset"}                      a new, independent trace starts    *)
(* TLC consumes the lines one by one; a line is consumable iff it is       *)
(* consistent with ONE grow-only bijection expansion<->prefix and ONE      *)
(* grow-only injection uri->id.  Acceptance: all lines consumed            *)
(* (high-water mark in TLC register 1, checked by the POSTCONDITION).      *)
(***************************************************************************)
EXTENDS Integers, Sequences, FiniteSets, TLC, Json

CONSTANT TraceFile
Trace == ndJsonDeserialize(TraceFile)

VARIABLES ns,   \* set of <<prefix, expansion>> pairs handed out so far
          ids,  \* set of <<uri, id>> pairs
          l     \* next line

tvars == <<ns, ids, l>>

NsOk(p, e) == \A x \in ns : (x[1] = p) <=> (x[2] = e)       \* bijection preserved
IdOk(u, n) == \A x \in ids : (x[1] = u) <=> (x[2] = n)

Event == Trace[l]

Step ==
  /\ l <= Len(Trace)
  /\ l' = l + 1
  /\ CASE Event.k = "ns" ->
            /\ NsOk(Event.prefix, Event.exp)
            /\ ns' = ns \cup {<<Event.prefix, Event.exp>>}
            /\ UNCHANGED ids
       [] Event.k = "ctx" ->
            /\ (\A i \in 1..Len(Event.pairs) : NsOk(Event.pairs[i][1], Event.pairs[i][2])) = TRUE   \* '= TRUE': evaluated as a value, not unfolded as an action
            /\ Cardinality({ Event.pairs[i][1] : i \in 1..Len(Event.pairs) }) = Len(Event.pairs)
            /\ Cardinality({ Event.pairs[i][2] : i \in 1..Len(Event.pairs) }) = Len(Event.pairs)
            /\ ns' = ns \cup { <<Event.pairs[i][1], Event.pairs[i][2]>> : i \in 1..Len(Event.pairs) }
            /\ UNCHANGED ids
       [] Event.k = "ctxall" ->  \* a snapshot taken while nothing else runs: consistent AND complete
            /\ (\A i \in 1..Len(Event.pairs) : NsOk(Event.pairs[i][1], Event.pairs[i][2])) = TRUE   \* '= TRUE': evaluated as a value, not unfolded as an action
            /\ Cardinality({ Event.pairs[i][1] : i \in 1..Len(Event.pairs) }) = Len(Event.pairs)
            /\ Cardinality({ Event.pairs[i][2] : i \in 1..Len(Event.pairs) }) = Len(Event.pairs)
            /\ ns \subseteq { <<Event.pairs[i][1], Event.pairs[i][2]>> : i \in 1..Len(Event.pairs) }
            /\ ns' = { <<Event.pairs[i][1], Event.pairs[i][2]>> : i \in 1..Len(Event.pairs) }
            /\ UNCHANGED ids
       [] Event.k = "id" ->
            /\ IdOk(Event.uri, Event.id)
            /\ ids' = ids \cup {<<Event.uri, Event.id>>}
            /\ UNCHANGED ns
       [] Event.k = "rt" ->
            /\ Event.uri = Event.back
            /\ UNCHANGED <<ns, ids>>
       [] Event.k = "reset" ->
            /\ ns' = {} /\ ids' = {}
  /\ TLCSet(1, l)        \* last conjunct: only a line that was consumable moves the high-water mark

Init == ns = {} /\ ids = {} /\ l = 1 /\ TLCSet(1, 0)
Spec == Init /\ [][Step]_tvars

Accepted == TLCGet(1) = Len(Trace)
=============================================================================
