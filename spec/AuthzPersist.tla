----------------------------- MODULE AuthzPersist -----------------------------
(***************************************************************************)
(* C16 (last clause) / C14: client registrations and access-control lists  *)
(* survive a restart unchanged.  TLC generates every bounded sequence of   *)
(* register / unregister / set ACL / delete ACL / restart; the harness     *)
(* executes it on the real ServiceCore (a restart = a new ServiceCore on   *)
(* the same directory) and compares clients and ACLs at the end.  Token    *)
(* requests (client assertions of every shape, admin credentials) are      *)
(* steps too: their outcome is compared where they happen.                 *)
(***************************************************************************)
EXTENDS Integers, Sequences, FiniteSets, TLC, Json
(* persistence of clients and ACLs (C16 last clause, C14) *)
CONSTANTS Clients, MaxOps
VARIABLES reg,    \* registered clients: [client -> key version] (registering a known client again rotates its key)
          acls,   \* [client -> ACL set id] of clients that have an ACL
          phist
pvars == <<reg, acls, phist>>
PLog(r) == phist' = Append(phist, r)
\* registering a known client again rotates its key: versions count up, so that a state with version 2 is only
\* reachable through a rotation (the view hides the history)
Register(c) == LET kv == IF c \in DOMAIN reg THEN reg[c] + 1 ELSE 1
               IN /\ kv <= 3
                  /\ reg' = [x \in DOMAIN reg \cup {c} |-> IF x = c THEN kv ELSE reg[x]] /\ UNCHANGED acls
                  /\ PLog([a |-> "register", c |-> c, kv |-> kv])
Unregister(c) == c \in DOMAIN reg /\ reg' = [x \in DOMAIN reg \ {c} |-> reg[x]] /\ acls' = [x \in DOMAIN acls \ {c} |-> acls[x]]
                 /\ PLog([a |-> "unregister", c |-> c])
SetAcl(c, k) == acls' = [x \in DOMAIN acls \cup {c} |-> IF x = c THEN k ELSE acls[x]] /\ UNCHANGED reg
                /\ PLog([a |-> "setacl", c |-> c, k |-> k])
DelAcl(c) == c \in DOMAIN acls /\ acls' = [x \in DOMAIN acls \ {c} |-> acls[x]] /\ UNCHANGED reg
             /\ PLog([a |-> "delacl", c |-> c])
\* a client asks for an access token with an assertion signed by key version kv of client c (the token route is open:
\* this is where "a valid token" comes from).  One is issued iff c is registered with exactly that key and the
\* assertion is fresh and RS256-signed; the same for the admin's key and secret.  Nothing changes.
Shapes == {"fresh", "expired", "notyet", "hs256", "none", "garbage"}
TokenByAssertion(c, kv, sh) == /\ UNCHANGED <<reg, acls>>
                     /\ PLog([a |-> "assert", c |-> c, kv |-> kv, sh |-> sh,
                              ok |-> (c \in DOMAIN reg /\ (IF c \in DOMAIN reg THEN reg[c] = kv ELSE FALSE) /\ sh = "fresh")])
AdminLogin(good) == UNCHANGED <<reg, acls>> /\ PLog([a |-> "admin", ok |-> good])
PRestart == phist # <<>> /\ (IF phist = <<>> THEN FALSE ELSE phist[Len(phist)].a # "restart")
            /\ UNCHANGED <<reg, acls>> /\ PLog([a |-> "restart"])
PInit == reg = <<>> /\ acls = <<>> /\ phist = <<>>
PNext == /\ Len(phist) < MaxOps
         /\ \/ \E c \in Clients : Register(c) \/ Unregister(c) \/ DelAcl(c)
            \/ \E c \in Clients, k \in 1..2 : SetAcl(c, k)
            \/ PRestart
            \/ \E c \in Clients, kv \in 1..3, sh \in Shapes : TokenByAssertion(c, kv, sh)
            \/ \E good \in BOOLEAN : AdminLogin(good)
PSpec == PInit /\ [][PNext]_pvars
\* the history is hidden from the view, except whether the last step was a restart (it changes nothing else:
\* without the bit a restart would only ever END a sequence)
pview == <<reg, acls, IF phist = <<>> THEN FALSE ELSE phist[Len(phist)].a = "restart">>
PEmit == PrintT(<<"PCASE", ToJson([steps |-> phist, reg |-> reg, acls |-> acls])>>)
=============================================================================
