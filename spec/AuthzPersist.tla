----------------------------- MODULE AuthzPersist -----------------------------
(***************************************************************************)
(* C16 (last clause) / C14: client registrations and access-control lists  *)
(* survive a restart unchanged.  TLC generates every bounded sequence of   *)
(* register / unregister / set ACL / delete ACL / restart; the harness     *)
(* executes it on the real ServiceCore (a restart = a new ServiceCore on   *)
(* the same directory) and compares clients and ACLs at the end.           *)
(***************************************************************************)
EXTENDS Integers, Sequences, FiniteSets, TLC, Json
(* persistence of clients and ACLs (C16 last clause, C14) *)
CONSTANTS Clients, MaxOps
VARIABLES reg,    \* registered clients
          acls,   \* [client -> ACL set id] of clients that have an ACL
          phist
pvars == <<reg, acls, phist>>
PLog(r) == phist' = Append(phist, r)
Register(c) == reg' = reg \cup {c} /\ UNCHANGED acls /\ PLog([a |-> "register", c |-> c])
Unregister(c) == c \in reg /\ reg' = reg \ {c} /\ acls' = [x \in DOMAIN acls \ {c} |-> acls[x]]
                 /\ PLog([a |-> "unregister", c |-> c])
SetAcl(c, k) == acls' = [x \in DOMAIN acls \cup {c} |-> IF x = c THEN k ELSE acls[x]] /\ UNCHANGED reg
                /\ PLog([a |-> "setacl", c |-> c, k |-> k])
DelAcl(c) == c \in DOMAIN acls /\ acls' = [x \in DOMAIN acls \ {c} |-> acls[x]] /\ UNCHANGED reg
             /\ PLog([a |-> "delacl", c |-> c])
PRestart == phist # <<>> /\ (IF phist = <<>> THEN FALSE ELSE phist[Len(phist)].a # "restart")
            /\ UNCHANGED <<reg, acls>> /\ PLog([a |-> "restart"])
PInit == reg = {} /\ acls = <<>> /\ phist = <<>>
PNext == /\ Len(phist) < MaxOps
         /\ \/ \E c \in Clients : Register(c) \/ Unregister(c) \/ DelAcl(c)
            \/ \E c \in Clients, k \in 1..2 : SetAcl(c, k)
            \/ PRestart
PSpec == PInit /\ [][PNext]_pvars
pview == <<reg, acls>>
PEmit == PrintT(<<"PCASE", ToJson([steps |-> phist, reg |-> reg, acls |-> acls])>>)
=============================================================================
