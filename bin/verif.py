#!/usr/bin/env python3
"""Shared driver library of /verif: builds the Go harness against /repo's current
working tree (go -overlay), runs TLC on the specification, runs replay workers,
classifies divergences against known_findings.json and writes evidence files."""
import json, os, re, shutil, subprocess, sys, time, hashlib, glob

VERIF = os.path.dirname(os.path.dirname(os.path.abspath(__file__)))
REPO = os.environ.get("VERIF_REPO", "/repo")
SPEC = os.path.join(VERIF, "spec")
HARNESS = os.path.join(VERIF, "harness")
NCPU = os.cpu_count() or 4

GOENV = dict(os.environ, GOFLAGS="-mod=mod", GOPROXY="off", GOSUMDB="off", GOTOOLCHAIN="local")


class Inconclusive(Exception):
    """Tooling failure / dead driver / timeout: exit 2, never a verdict."""


def log(*a):
    print(*a, flush=True)


_WD_LOCKS = []


def workdir(prop):
    """Fresh scratch directory .work/<prop>.  Two runs for the same property (quick and thorough started side
    by side) would wipe each other's files: the second one waits until the first has finished."""
    import fcntl
    os.makedirs(os.path.join(VERIF, ".work"), exist_ok=True)
    lk = open(os.path.join(VERIF, ".work", prop + ".lock"), "w")
    fcntl.flock(lk, fcntl.LOCK_EX)
    _WD_LOCKS.append(lk)       # held until the process exits
    d = os.path.join(VERIF, ".work", prop)
    shutil.rmtree(d, ignore_errors=True)
    os.makedirs(d)
    return d


# ----------------------------------------------------------------------------
# harness build

def write_overlay(path):
    repl = {}
    for root, _, files in os.walk(HARNESS):
        for f in files:
            if not f.endswith(".go"):
                continue
            src = os.path.join(root, f)
            rel = os.path.relpath(src, HARNESS)
            repl[os.path.join(REPO, rel)] = src
    with open(path, "w") as fh:
        json.dump({"Replace": repl}, fh, indent=1)
    return repl


def cover_args():
    """development aid (bin/coverage): with VERIF_COVER_DIR set the harness is built with coverage counters for the
    product packages and every worker leaves its counters in that directory"""
    d = os.environ.get("VERIF_COVER_DIR")
    if not d:
        return []
    os.makedirs(d, exist_ok=True)
    return ["-test.gocoverdir=" + d]


def build_harness(wd, pkg="./internal/verifharness/engine/", name="engine.test"):
    """go test -c with the overlay, against whatever is in /repo right now."""
    ov = os.path.join(wd, "overlay.json")
    write_overlay(ov)
    out = os.path.join(wd, name)
    t0 = time.time()
    # bin/seedrun holds this lock exclusively while a seeded change is applied to /repo (development aid only):
    # a check started meanwhile waits instead of building a patched tree
    lockfh = None
    if not os.environ.get("VERIF_REPO_LOCKED"):
        import fcntl
        os.makedirs(os.path.join(VERIF, ".work"), exist_ok=True)
        lockfh = open(os.path.join(VERIF, ".work", "repo.lock"), "w")
        fcntl.flock(lockfh, fcntl.LOCK_SH)
    try:
        if os.environ.get("VERIF_COVER_DIR"):
            # development aid: the cover tool does not read overlay files, so the harness sources are copied into a
            # scratch copy of the working tree (outside /repo and /verif) and the build runs there
            scratch = os.environ["VERIF_COVER_DIR"].rstrip("/") + "_tree"
            subprocess.run(["rsync", "-a", "--delete", "--exclude", ".git", REPO + "/", scratch + "/"], check=True)
            for dst, src in write_overlay(ov).items():
                d2 = os.path.join(scratch, os.path.relpath(dst, REPO))
                os.makedirs(os.path.dirname(d2), exist_ok=True)
                shutil.copy(src, d2)
            p = subprocess.run(["go", "test", "-c", "-vet=off", "-tags", "verif", "-cover",
                                "-coverpkg=github.com/mimiro-io/datahub/internal/...", "-o", out, pkg],
                               cwd=scratch, env=GOENV, capture_output=True, text=True)
        else:
            p = subprocess.run(["go", "test", "-c", "-vet=off", "-tags", "verif", "-overlay", ov, "-o", out, pkg],
                               cwd=REPO, env=GOENV, capture_output=True, text=True)
    finally:
        if lockfh:
            lockfh.close()
    if p.returncode != 0 or not os.path.exists(out):
        sys.stderr.write(p.stdout + p.stderr)
        raise Inconclusive("harness build failed")
    log(f"[build] {name} built against {REPO} in {time.time()-t0:.1f}s")
    return out


# ----------------------------------------------------------------------------
# TLC

def tla_value(v):
    """Render a python value as a TLA+ expression."""
    if isinstance(v, bool):
        return "TRUE" if v else "FALSE"
    if isinstance(v, int):
        return str(v)
    if isinstance(v, str):
        return '"%s"' % v
    if isinstance(v, (list, tuple)):
        return "<<" + ", ".join(tla_value(x) for x in v) + ">>"
    if isinstance(v, (set, frozenset)):
        return "{" + ", ".join(tla_value(x) for x in sorted(v, key=repr)) + "}"
    if isinstance(v, dict):
        if not v:
            return "<<>>"
        return "[" + ", ".join("%s |-> %s" % (k, tla_value(x)) for k, x in v.items()) + "]"
    if isinstance(v, Raw):
        return v.s
    raise TypeError(v)


class Raw:
    def __init__(self, s):
        self.s = s


def content(tok, d=False, **refs):
    """Abstract content: property token p, deleted flag d, refs pred=(k, [targets])."""
    return {"p": tok, "refs": refs, "d": d}


def render_content(c, preds):
    r = "[" + ", ".join('q \\in {"%s"} |-> %s' % (q, tla_value({"k": c["refs"].get(q, (0, []))[0], "t": list(c["refs"].get(q, (0, []))[1])})) for q in preds) + "]"
    # a function over Pred built by merging single-point functions
    parts = ['"%s" :> %s' % (q, tla_value({"k": c["refs"].get(q, (0, []))[0], "t": list(c["refs"].get(q, (0, []))[1])})) for q in preds]
    r = "(" + " @@ ".join(parts) + ")"
    return "[p |-> %d, r |-> %s, d |-> %s]" % (c["p"], r, tla_value(c["d"]))


def gen_mc(wd, name, base, consts, spec, invariants=(), props=(), view="view", constraint="Emit",
           contents=None, preds=("p",), defs=(), extra_cfg=(), header="EmitHeader"):
    """Write <name>.tla / <name>.cfg into wd (a scratch copy of spec/)."""
    lines = ["---- MODULE %s ----" % name, "EXTENDS %s" % base]
    cfg = ["SPECIFICATION %s" % spec, "CONSTANTS"]
    if contents is not None:
        lines.append("MC_ContentSeq == <<" + ",\n   ".join(render_content(c, preds) for c in contents) + ">>")
        cfg.append("  ContentSeq <- MC_ContentSeq")
        lines.append("MC_Pred == " + tla_value(set(preds)))
        cfg.append("  Pred <- MC_Pred")
    for k, v in consts.items():
        lines.append("MC_%s == %s" % (k, tla_value(v)))
        cfg.append("  %s <- MC_%s" % (k, k))
    if "Fan" in consts and "Seed" not in consts:   # Datahub family: the sampled exploration is a function of the seed
        lines.append("MC_Seed == %d" % int(os.environ.get("VERIF_SEED", "1")))
        cfg.append("  Seed <- MC_Seed")
    lines.extend(defs)
    lines.append("ASSUME " + header)
    lines.append("====")
    if view:
        cfg.append("VIEW %s" % view)
    if invariants:
        cfg.append("INVARIANTS " + " ".join(invariants))
    if props:
        cfg.append("PROPERTIES " + " ".join(props))
    if constraint:
        cfg.append("CONSTRAINT %s" % constraint)
    cfg.append("CHECK_DEADLOCK FALSE")
    cfg.extend(extra_cfg)
    with open(os.path.join(wd, name + ".tla"), "w") as fh:
        fh.write("\n".join(lines) + "\n")
    with open(os.path.join(wd, name + ".cfg"), "w") as fh:
        fh.write("\n".join(cfg) + "\n")


def run_apalache(wd, module, obligations, timeout=600):
    """Discharge proof obligations with Apalache (bounded symbolic checker) in the scratch copy wd.
    obligations: list of (label, extra command-line arguments).  Returns a stage record; a failed or undecided
    obligation is a problem of the specification, not of the code: Inconclusive."""
    import time as _t
    t0 = _t.time()
    done = []
    for label, args in obligations:
        cmd = ["apalache-mc", "check", "--out-dir=" + os.path.join(wd, "_apalache_" + module)] + list(args) + [module + ".tla"]
        try:
            p = subprocess.run(cmd, cwd=wd, capture_output=True, text=True, timeout=timeout)
        except subprocess.TimeoutExpired:
            raise Inconclusive("apalache: %s / %s timed out" % (module, label))
        if p.returncode != 0 or "EXITCODE: OK" not in p.stdout:
            sys.stderr.write(p.stdout[-1500:] + p.stderr[-500:])
            raise Inconclusive("apalache: obligation %s of %s not discharged (rc=%d)" % (label, module, p.returncode))
        done.append(label)
    shutil.rmtree(os.path.join(wd, "_apalache_" + module), ignore_errors=True)
    log("[apalache] %s: %d obligations discharged in %.1fs" % (module, len(done), _t.time() - t0))
    return {"name": module + ":apalache", "obligations": done, "wall_s": round(_t.time() - t0, 1)}


def run_tlc(wd, name, out, workers=None, timeout=1800, heap="8g", simulate=None, seed=None, depth=None,
            extra=()):
    """Run TLC in wd; stdout goes to `out`.  Returns stats dict."""
    workers = workers or NCPU
    meta = os.path.join(wd, "meta_" + name)
    cmd = ["java", "-Xmx" + heap, "-Xss64m", "-XX:+UseParallelGC", "-cp", "/opt/veriftools/tla/tla2tools.jar:" + community_cp(),
           "tlc2.TLC", "-workers", str(workers), "-metadir", meta, "-config", name + ".cfg"]
    if simulate:
        cmd += ["-simulate", simulate]
        if depth:
            cmd += ["-depth", str(depth)]
    if seed is not None:
        cmd += ["-seed", str(seed)]
    cmd += list(extra) + [name + ".tla"]
    t0 = time.time()
    with open(out, "w") as fh:
        try:
            p = subprocess.run(cmd, cwd=wd, stdout=fh, stderr=subprocess.STDOUT, timeout=timeout)
        except subprocess.TimeoutExpired:
            raise Inconclusive("TLC timed out on %s" % name)
    wall = time.time() - t0
    shutil.rmtree(meta, ignore_errors=True)
    st = {"name": name, "wall_s": round(wall, 1), "generated": 0, "distinct": 0, "error": None, "rc": p.returncode}
    tail = []
    ntrace = 0
    with open(out, errors="replace") as fh:
        for line in fh:
            if line.startswith('<<"TRACE"'):
                ntrace += 1
                continue
            tail.append(line)
            m = re.match(r"(\d[\d,]*) states generated, (\d[\d,]*) distinct states found", line)
            if m:
                st["generated"] = int(m.group(1).replace(",", ""))
                st["distinct"] = int(m.group(2).replace(",", ""))
            if line.startswith("Error:") and st["error"] is None:
                st["error"] = line.strip()
    st["tail"] = "".join(tail[-40:])
    st["emitted"] = ntrace
    if simulate is not None:
        st["generated"] = st["distinct"] = ntrace
    if simulate is None and "Model checking completed. No error has been found." not in st["tail"] and st["error"] is None:
        st["error"] = "TLC did not complete"
    log(f"[tlc] {name}: generated={st['generated']} distinct={st['distinct']} wall={wall:.1f}s rc={p.returncode} err={st['error']}")
    return st


_cp = None


def community_cp():
    global _cp
    if _cp is None:
        c = glob.glob("/opt/veriftools/tla/*.jar")
        _cp = ":".join(c)
    return _cp


def spec_copy(wd):
    d = os.path.join(wd, "spec")
    shutil.copytree(SPEC, d)
    return d


# ----------------------------------------------------------------------------
# replay workers

def replay(binary, wd, tlc_out, tables="plain", adapters="go", workers=None, per_world=400, timeout=3000,
           stride_extra=1, label="replay", rotate=False, seed=1, test="TestReplay", extra_env=None):
    """Run K replay workers over the behaviours of one TLC output file."""
    workers = workers or NCPU
    procs = []
    t0 = time.time()
    for i in range(workers):
        res = os.path.join(wd, f"{label}_{i}.ndjson")
        d = os.path.join(wd, f"{label}_store_{i}")
        os.makedirs(d, exist_ok=True)
        env = dict(os.environ, VERIF_TLC_OUT=tlc_out, VERIF_STRIDE=str(workers * stride_extra), VERIF_OFFSET=str(i),
                   VERIF_RESULT=res, VERIF_TABLES=tables, VERIF_ADAPTERS=adapters, VERIF_DIR=d,
                   VERIF_PER_WORLD=str(per_world), VERIF_ROTATE="1" if rotate else "0", VERIF_SEED=str(seed))
        env.update({k: val.replace("{i}", str(i)).replace("{wd}", wd) for k, val in (extra_env or {}).items()})
        lf = open(os.path.join(wd, f"{label}_{i}.log"), "w")
        p = subprocess.Popen([binary, "-test.run", "^%s$" % test, "-test.timeout", "0"] + cover_args(), env=env, stdout=lf,
                             stderr=subprocess.STDOUT, cwd=wd)
        procs.append((p, res, lf, d))
    summaries, results, crashes = [], [], []
    for p, res, lf, d in procs:
        try:
            rc = p.wait(timeout=max(1, timeout - (time.time() - t0)))
        except subprocess.TimeoutExpired:
            for q, *_ in procs:
                q.kill()
            raise Inconclusive("replay worker timed out")
        lf.close()
        shutil.rmtree(d, ignore_errors=True)
        if rc != 0:
            logtxt = open(lf.name, errors="replace").read()
            cur = ""
            if os.path.exists(res + ".cur"):
                cur = open(res + ".cur").read()
            m = re.search(r"^(panic: .*|fatal error: .*)$", logtxt, re.M)
            product = re.search(r"^github\.com/mimiro-io/datahub/internal/(?!verifharness)\S+", logtxt, re.M)
            if m and product and cur:
                # the hub code itself crashed the process while replaying a behaviour: that is an observation
                first = cur.split("\n", 1)
                crashes.append({"what": m.group(1), "where": product.group(0), "behaviour": first[0],
                                "steps": json.loads(first[1]) if len(first) > 1 else [], "log_tail": logtxt[-2500:]})
                for q, *_ in procs:
                    if q.poll() is None:
                        q.kill()
                break
            sys.stderr.write(logtxt[-3000:])
            raise Inconclusive(f"replay worker exited {rc}")
        got_summary = False
        with open(res) as fh:
            for line in fh:
                r = json.loads(line)
                if r.get("summary"):
                    summaries.append(r)
                    got_summary = True
                else:
                    results.append(r)
        if not got_summary:
            raise Inconclusive("replay worker wrote no summary")
    if crashes:
        tot = {"behaviours": 0, "replays": 1, "checks": 1, "skipped": 0, "nontrivial_distinct": 1, "diverging": 1,
               "errors": 0, "samples": [], "wall_s": round(time.time() - t0, 1)}
        c = crashes[0]
        results = [{"idx": -1, "table": "?", "adapter": "?", "steps": c["steps"],
                    "divs": [{"kind": "process-crash", "adapter": "?", "query": c["behaviour"],
                              "expected": "the hub process stays alive", "actual": c["what"] + " in " + c["where"],
                              "note": c["log_tail"]}]}]
        return tot, results
    attach_replay_input(results, tlc_out, test, adapters, extra_env)
    tot = {"behaviours": 0, "replays": 0, "checks": 0, "skipped": 0, "nontrivial_distinct": 0, "diverging": 0,
           "errors": 0, "samples": []}
    for s in summaries:
        for k in ("behaviours", "replays", "checks", "skipped", "nontrivial_distinct", "diverging", "errors"):
            tot[k] += s[k]
        tot["samples"] += s.get("samples") or []
    tot["samples"] = tot["samples"][:3]
    tot["wall_s"] = round(time.time() - t0, 1)
    log(f"[replay] {label}: behaviours={tot['behaviours']} replays={tot['replays']} checks={tot['checks']} "
        f"diverging={tot['diverging']} errors={tot['errors']} wall={tot['wall_s']}s")
    return tot, results


TLC_TAGS = {"TestReplay": "TRACE", "TestCrash": "TRACE", "TestNamespace": "NTRACE", "TestErrorHandling": "CASE",
            "TestAuthz": "ACASE", "TestAuthzPersist": "PCASE", "TestJobConfigs": "JCFG", "TestParser": "DOC", "TestRegistry": "RTRACE"}


def attach_replay_input(results, tlc_out, test, adapters, extra_env):
    """Give every diverging result what bin/replay needs to execute it again: the header lines and the one
    behaviour / case line TLC emitted for it (the TLC output file itself is deleted after the stage)."""
    want = {r["idx"] for r in results if r.get("divs") and r.get("idx", -1) >= 0}
    if not want or not os.path.exists(tlc_out):
        return
    want = set(sorted(want)[:40])
    tag = '<<"%s", ' % TLC_TAGS.get(test, "TRACE")
    headers, raw, idx = [], {}, 0
    with open(tlc_out, errors="replace") as fh:
        for line in fh:
            if line.startswith(('<<"HEADER", ', '<<"JHEADER", ', '<<"MHEADER", ')):
                headers.append(line.rstrip("\n"))
            elif line.startswith(tag):
                if idx in want:
                    raw[idx] = line.rstrip("\n")
                idx += 1
    for r in results:
        if r.get("idx", -1) in raw and r.get("divs"):
            r["replay_input"] = {"test": test, "lines": headers + [raw[r["idx"]]], "idx": r["idx"],
                                 "table": r.get("table") or "plain", "adapters": adapters,
                                 "extra_env": {k: v for k, v in (extra_env or {}).items() if "{" not in v}}


# ----------------------------------------------------------------------------
# known findings, verdicts, evidence

def load_findings():
    p = os.path.join(VERIF, "known_findings.json")
    if not os.path.exists(p):
        return []
    return json.load(open(p)).get("findings", [])


class Verdict:
    def __init__(self, prop, tier, seed):
        self.prop, self.tier, self.seed = prop, tier, seed
        self.t0 = time.time()
        self.violations = []     # (description, replay path)
        self.known = {}          # finding id -> count
        self.cov = {"states": 0, "transitions": 0, "traces_validated_against_impl": 0, "samples": [],
                    "evaluations": 0, "distinct_nontrivial": 0, "stages": []}
        self.assumptions = []
        self.wd = None

    def add_tlc(self, st):
        if st["error"]:
            sys.stderr.write(st["tail"])
            raise Inconclusive("TLC error in %s: %s" % (st["name"], st["error"]))
        self.cov["states"] += st["distinct"]
        self.cov["transitions"] += st["generated"]
        self.cov["stages"].append({k: st[k] for k in ("name", "generated", "distinct", "wall_s")})

    def add_replay(self, tot, results, classify=None, label=""):
        self.cov["traces_validated_against_impl"] += tot["replays"]
        self.cov["evaluations"] += tot["checks"]
        self.cov["distinct_nontrivial"] += tot["nontrivial_distinct"]
        if len(self.cov["samples"]) < 4:
            self.cov["samples"] += tot["samples"][:2]
        self.cov["stages"].append({"name": label, **{k: tot[k] for k in ("behaviours", "replays", "checks", "skipped", "diverging", "errors", "wall_s")}})
        if tot["replays"] == 0:
            raise Inconclusive("no behaviour was replayed in " + label)
        n = 0
        for r in results:
            if r.get("err"):
                raise Inconclusive("harness error while replaying behaviour %s: %s" % (r["idx"], r["err"]))
            divs = r["divs"]
            alts = {d.get("alt") for d in divs if d.get("alt")}
            if len(alts) > 1:
                # crash result: the recovered state may be either alternative (before / after the interrupted step).
                # If every divergence of ONE alternative is a listed finding, the state IS that alternative (with the
                # finding showing): only that alternative's divergences count.
                listed = {f["id"] for f in load_findings()}
                def unlisted(ds):
                    return [d for d in ds if not (classify and classify(r, d) in listed)]
                for a in sorted(alts):
                    grp = [d for d in divs if d.get("alt") == a]
                    if not unlisted(grp):
                        divs = grp
                        break
                else:
                    divs = unlisted(divs)[:1] or divs[:1]
            for d in divs:
                fid = classify(r, d) if classify else None
                if fid and fid not in {f["id"] for f in load_findings()}:
                    fid = None      # only findings listed in known_findings.json are ever suppressed
                if fid:
                    self.known[fid] = self.known.get(fid, 0) + 1
                    continue
                n += 1
                path = os.path.join(self.wd, "replay-%s-%d.json" % (label or "x", n))
                with open(path, "w") as fh:
                    json.dump({"property": self.prop, "stage": label, "behaviour": r.get("steps", []), "table": r["table"],
                               "adapter": r["adapter"], "divergence": d, "replay_input": r.get("replay_input")}, fh, indent=1)
                if len(self.violations) < 5:
                    self.violations.append(("%s: %s query=%s expected=%s actual=%s" % (
                        label, d["kind"], json.dumps(d["query"]), json.dumps(d["expected"])[:300], json.dumps(d["actual"])[:300]), path))
                break  # one violation per behaviour is enough

    def finish(self, level="model_checking", rule="", extra_cov=None):
        findings = {f["id"]: f for f in load_findings()}
        for fid, cnt in sorted(self.known.items()):
            f = findings.get(fid, {})
            log("KNOWN-FINDING: property=%s %s: %s (%d occurrences this run)" % (self.prop, fid, f.get("what", ""), cnt))
        kept = []
        for desc, path in self.violations:
            # the work directory is wiped by the next run of this property: keep what a violation needs for bin/replay
            try:
                kd = os.path.join(VERIF, ".work", "_kept", "%s-%s-seed%s-%d" % (self.prop, self.tier, self.seed, int(self.t0)))
                os.makedirs(kd, exist_ok=True)
                kp = os.path.join(kd, os.path.basename(path))
                rec = json.load(open(path))
                tf = rec.get("trace_file")
                if tf and os.path.exists(tf):
                    ktf = os.path.join(kd, os.path.basename(tf))
                    shutil.copyfile(tf, ktf)
                    rec["trace_file"] = ktf
                with open(kp, "w") as fh:
                    json.dump(rec, fh, indent=1)
                path = kp
            except Exception:
                pass
            kept.append((desc, path))
        self.violations = kept
        for desc, path in self.violations:
            log("VIOLATION property=%s replay=%s" % (self.prop, path))
            log("   " + desc[:600])
        cov = dict(self.cov)
        cov["rule"] = rule
        cov["known_findings_seen"] = self.known
        if extra_cov:
            cov.update(extra_cov)
        if not cov["samples"]:
            cov["samples"] = ["(none)"]
        ev = {"property_id": self.prop, "tier": self.tier, "seed": self.seed, "level": level, "coverage": cov,
              "assumptions": self.assumptions, "wall_s": round(time.time() - self.t0, 1),
              "violations": len(self.violations)}
        os.makedirs(os.path.join(VERIF, "evidence"), exist_ok=True)
        with open(os.path.join(VERIF, "evidence", self.prop + ".json"), "w") as fh:
            json.dump(ev, fh, indent=1)
        log("[done] %s %s: states=%d transitions=%d replays=%d checks=%d violations=%d wall=%.0fs" % (
            self.prop, self.tier, cov["states"], cov["transitions"], cov["traces_validated_against_impl"],
            cov["evaluations"], len(self.violations), ev["wall_s"]))
        return 1 if self.violations else 0


def validate_trace(wd, sd, module, trace_file, timeout=900, invariants=()):
    """TLC trace validation: returns (accepted, lines, detail).  The trace module must define Spec,
    a constant TraceFile and a postcondition Accepted (high-water mark of consumed lines)."""
    name = "TV_" + module
    with open(os.path.join(sd, name + ".tla"), "w") as fh:
        fh.write("---- MODULE %s ----\nEXTENDS %s\nMC_TraceFile == \"%s\"\n"
                 "MC_Accepted == IF Accepted THEN TRUE ELSE PrintT(<<\"REJECTED_AT\", TLCGet(1) + 1>>) /\\ FALSE\n====\n"
                 % (name, module, trace_file))
    with open(os.path.join(sd, name + ".cfg"), "w") as fh:
        fh.write("SPECIFICATION Spec\nCONSTANTS TraceFile <- MC_TraceFile\nPOSTCONDITION MC_Accepted\nCHECK_DEADLOCK FALSE\n")
        if invariants:
            fh.write("INVARIANTS " + " ".join(invariants) + "\n")
    out = os.path.join(wd, name + ".out")
    env = dict(os.environ, JAVA_TOOL_OPTIONS="-Dtlc2.tool.queue.IStateQueue=StateDeque")
    cmd = ["java", "-Xmx6g", "-Xss512m", "-XX:+UseParallelGC", "-cp", "/opt/veriftools/tla/tla2tools.jar:" + community_cp(),
           "tlc2.TLC", "-workers", "1", "-metadir", os.path.join(sd, "meta_" + name), "-config", name + ".cfg", name + ".tla"]
    t0 = time.time()
    with open(out, "w") as fh:
        try:
            subprocess.run(cmd, cwd=sd, stdout=fh, stderr=subprocess.STDOUT, timeout=timeout, env=env)
        except subprocess.TimeoutExpired:
            raise Inconclusive("trace validation timed out")
    shutil.rmtree(os.path.join(sd, "meta_" + name), ignore_errors=True)
    txt = open(out, errors="replace").read()
    nlines = sum(1 for _ in open(trace_file))
    m = re.search(r'<<"REJECTED_AT", (\d+)>>', txt)
    if "is violated" in txt and not m:
        mi = re.search(r"Invariant (\w+) is violated", txt)
        log(f"[trace] {module}: invariant {mi.group(1) if mi else '?'} violated on the trace")
        return False, nlines, -1, {"name": name, "generated": 0, "distinct": 0, "wall_s": round(time.time() - t0, 1),
                                   "invariant": mi.group(1) if mi else "?"}
    st = {"name": name, "generated": 0, "distinct": 0, "wall_s": round(time.time() - t0, 1)}
    mm = re.search(r"(\d[\d,]*) states generated, (\d[\d,]*) distinct states found", txt)
    if mm:
        st["generated"] = int(mm.group(1).replace(",", ""))
        st["distinct"] = int(mm.group(2).replace(",", ""))
    if m:
        log(f"[trace] {module}: REJECTED at line {m.group(1)} of {nlines} ({st['wall_s']}s)")
        return False, nlines, int(m.group(1)), st
    if "Model checking completed. No error has been found." in txt:
        log(f"[trace] {module}: accepted {nlines} lines ({st['wall_s']}s)")
        return True, nlines, 0, st
    sys.stderr.write(txt[-3000:])
    raise Inconclusive("trace validation failed to run")
