"""Per-property check definitions (see DESIGN.md section 5)."""
import os, json
import verif
from verif import content, Verdict, log, Inconclusive

ALL_TABLES = ["plain", "eqlen", "shapes", "nested", "native"]

CORE_INV = ["TypeOK", "LatestIsLast", "NoAdjacentDupUnlessInjected", "PosIncreasing", "FeedPagingExact",
            "TokenAtEndStable", "ReaderPrefix", "DeletedInvisible", "IncNeverReused", "CatalogueAgrees"]
CORE_PROPS = ["PastImmutable", "RecreateEmpty", "MaintInvisible", "OthersUnaffected"]


def tables_for(tier, seed, always=("plain", "eqlen")):
    if tier == "thorough":
        return ",".join(ALL_TABLES)
    rest = [t for t in ALL_TABLES if t not in always]
    return ",".join(list(always) + [rest[seed % len(rest)]])


def datahub_stage(v, sd, binary, name, *, ds, ent, contents, preds=("p",), max_batch=1, max_steps=2, acts=("store",),
                  kinds=("ent", "chg", "look"), limits=(0, 1, 2), readers=(), spec="SpecCreated", tables="plain",
                  adapters="go", invariants=CORE_INV, props=CORE_PROPS, classify=None, view="view",
                  sample=False, seed=None, fan=4, stride_extra=1, tlc_timeout=1500, heap="8g", inv_ref=True,
                  per_world=400, rotate=False, target=None, track_pre=False, replay_fn=None, allowed=None,
                  require_act=None):
    """One TLC run of spec/Datahub.tla (exhaustive or simulation) + replay of everything it emitted.
    allowed: the <<dataset, entity, content>> triples that may be written (None = all);
    require_act: replay only the behaviours that contain this action (the others belong to other stages)."""
    consts = {"DsSeq": list(ds), "Ent": set(ent), "MaxBatch": max_batch, "MaxSteps": max_steps, "Acts": set(acts),
              "ObsKinds": set(kinds), "Limits": set(limits), "Fan": fan, "Precreated": spec.startswith("SpecCreated"), "Writable": set(ds), "TrackPre": track_pre, "Allowed": set(),
              "Readers": set() if not readers else verif.Raw("{" + ", ".join(verif.tla_value(r) for r in readers) + "}")}
    if allowed:
        consts["Allowed"] = verif.Raw("{" + ", ".join("<<%s, %s, %d>>" % (verif.tla_value(a), verif.tla_value(b), c) for a, b, c in allowed) + "}")
    constraint = "Emit"
    if sample:
        # deep sampled histories: BFS over NextSample (random Fan successors per state), history not hidden
        view, spec = None, spec + "Sample"
        invariants, props = ["TypeOK"], ()
    verif.gen_mc(sd, name, "Datahub", consts, spec, invariants=invariants, props=props,
                 view=view, contents=contents, preds=preds, constraint=constraint)
    out = os.path.join(v.wd, name + ".out")
    st = verif.run_tlc(sd, name, out, timeout=tlc_timeout, heap=heap, seed=seed if sample else None,
                       workers=1 if sample else None)
    v.add_tlc(st)
    if require_act:
        needle = '\\"a\\":\\"%s\\"' % require_act
        kept = 0
        with open(out, errors="replace") as src, open(out + ".f", "w") as dst:
            for line in src:
                if not line.startswith('<<"TRACE", ') or needle in line:
                    dst.write(line)
                    kept += line.startswith('<<"TRACE", ')
        os.replace(out + ".f", out)
        v.cov["stages"].append({"name": name + ":filtered", "emitted": st["emitted"], "with_" + require_act: kept})
        st = dict(st, emitted=kept)
    if target and st["emitted"] > target:
        # bound the replay cost of sampled stages: replay every k-th emitted behaviour (recorded in the evidence)
        stride_extra = -(-st["emitted"] // target)
        v.cov["stages"].append({"name": name + ":thinned", "emitted": st["emitted"], "replayed_every": stride_extra})
    tot, results = verif.replay(binary, v.wd, out, tables=tables, adapters=adapters, label=name,
                                stride_extra=stride_extra, per_world=per_world, rotate=rotate, seed=v.seed,
                                **(replay_fn or {}))
    v.add_replay(tot, results, classify=classify, label=name)
    os.remove(out)
    return st, tot


RULE_REPLAY = ("behaviours = action histories emitted by TLC from spec/Datahub.tla (one per generated state: the "
               "first-found history of every distinct abstract state extended by every enabled action instance, i.e. "
               "transition coverage of the bounded state graph; plus simulated deeper histories); each is executed on "
               "the real Store/DsManager and every read-API answer is compared with the answer the specification "
               "requires. evaluations = compared answers; distinct_nontrivial = distinct histories (sha1 of the step "
               "list) containing at least one state-changing action")


# ----------------------------------------------------------------------------
# C01

def c01_contents():
    # p tokens: 1,2 plain; 3/4 engineered equal-length partners of deleted 0 / deleted 1
    return [content(1), content(2), content(0, d=True), content(3), content(1, d=True), content(4)]


def check_C01(tier, seed):
    v = Verdict("C01", tier, seed)
    v.wd = verif.workdir("C01")
    sd = verif.spec_copy(v.wd)
    binary = verif.build_harness(v.wd)
    thorough = tier == "thorough"
    tabs = tables_for(tier, seed)
    # (a) one dataset, repeated ids inside a batch, delete/un-delete, equal-length pairs
    datahub_stage(v, sd, binary, "C01_batch", ds=["a"], ent=["e1", "e2"], contents=c01_contents(), max_batch=2,
                  max_steps=2, tables=tabs, kinds=("ent", "look"))
    if thorough:
        datahub_stage(v, sd, binary, "C01_batch3", ds=["a"], ent=["e1", "e2"], contents=c01_contents()[:4],
                      max_batch=2, max_steps=3, tables=tabs, kinds=("ent", "look"), rotate=True)
    # (a') more equal-length pairs: same-length key rename, string vs number vs array of equal length, single
    #      reference vs array reference of equal length (entity names differ by the two bracket characters)
    ce = [content(1), content(5), content(6), content(7), content(1, p=(1, ["e1xx"])), content(1, p=(2, ["e1"]))]
    datahub_stage(v, sd, binary, "C01_eqlen", ds=["a"], ent=["e1", "e1xx"], contents=ce, max_batch=2, max_steps=2,
                  tables="eqlen", kinds=("ent", "look"))
    # (b) two datasets sharing ids, transactions, unscoped merge
    c4 = [content(1), content(2), content(0, d=True), content(3)]
    datahub_stage(v, sd, binary, "C01_multi", ds=["a", "b"], ent=["e1", "e2"], contents=c4, max_batch=1,
                  max_steps=2, acts=("store", "txn"), tables=tabs, kinds=("ent", "look"))
    datahub_stage(v, sd, binary, "C01_multi3", ds=["a", "b"], ent=["e1", "e2"], contents=c4, max_batch=1,
                  max_steps=3, acts=("store", "txn") if thorough else ("store",), tables=tabs, kinds=("ent", "look"),
                  rotate=True)
    # (b') the same id in three datasets with references under one predicate: single + single + single, array + single,
    #      single + array, deleted partials in between (merge of reference values across partials)
    cr = [content(1, p=(1, ["e2"])), content(2, p=(2, ["e2", "e1"])), content(1, p=(1, ["e1"])), content(0, d=True)]
    datahub_stage(v, sd, binary, "C01_refmerge", ds=["a", "b", "c"], ent=["e1", "e2"], contents=cr, max_batch=1,
                  max_steps=4 if thorough else 3, acts=("store",), tables="plain", kinds=("look",), limits=(0,),
                  allowed=[(d, "e1", c) for d in ("a", "b", "c") for c in (1, 2, 3, 4)])
    # (c) deeper random histories
    datahub_stage(v, sd, binary, "C01_sim", ds=["a", "b"], ent=["e1", "e2", "e3"], contents=c01_contents(),
                  max_batch=2, max_steps=9 if thorough else 7, acts=("store", "txn", "reject"), tables=tabs, kinds=("ent", "look"),
                  sample=True, seed=seed, rotate=True, fan=6 if thorough else 5, target=60000 if thorough else 6000)
    v.assumptions = ["entity contents are those of the concretisation tables (harness/.../concretize.go)",
                     "ids <= 3, datasets <= 2, bounded history depth (small-scope hypothesis)",
                     "badger, encoding/json are trusted"]
    return v.finish(rule=RULE_REPLAY)


# ----------------------------------------------------------------------------
# C02

def check_C02(tier, seed):
    v = Verdict("C02", tier, seed)
    v.wd = verif.workdir("C02")
    sd = verif.spec_copy(v.wd)
    binary = verif.build_harness(v.wd)
    thorough = tier == "thorough"
    tabs = tables_for(tier, seed)
    c4 = [content(1), content(2), content(0, d=True), content(1, d=True)]
    # (a) one dataset, in-batch repeats, every since / limit / latestOnly, token walks
    datahub_stage(v, sd, binary, "C02_batch", ds=["a"], ent=["e1", "e2"], contents=c4, max_batch=2,
                  max_steps=3 if thorough else 2, tables=tabs, kinds=("chg", "ent"), limits=(0, 1, 2, 3),
                  rotate=thorough)
    # (b) token-carrying readers interleaved with writers
    readers = [{"id": 1, "ds": "a", "lo": False, "lim": 1}, {"id": 2, "ds": "a", "lo": True, "lim": 2}]
    datahub_stage(v, sd, binary, "C02_readers", ds=["a"], ent=["e1", "e2"], contents=c4[:3], max_batch=1,
                  max_steps=6 if thorough else 5, acts=("store", "read"), readers=readers, tables=tabs,
                  kinds=("chg",), limits=(0, 1), rotate=True)
    # (c) two datasets + transactions (feeds are per dataset)
    datahub_stage(v, sd, binary, "C02_multi", ds=["a", "b"], ent=["e1", "e2"], contents=c4[:3], max_batch=1,
                  max_steps=3 if thorough else 2, acts=("store", "txn"), tables=tabs, kinds=("chg",), rotate=True)
    # (d) deeper sampled histories with readers
    datahub_stage(v, sd, binary, "C02_deep", ds=["a", "b"], ent=["e1", "e2", "e3"], contents=c4, max_batch=2,
                  max_steps=9 if thorough else 7, acts=("store", "txn", "read", "reject"), readers=readers, tables=tabs,
                  kinds=("chg",), sample=True, seed=seed, rotate=True, fan=6 if thorough else 5, target=60000 if thorough else 6000)
    v.assumptions = ["change positions are compared numerically (tokens are the documented sequence numbers)",
                     "contents from the concretisation tables; ids <= 3; bounded depth"]
    return v.finish(rule=RULE_REPLAY)


# ----------------------------------------------------------------------------
# C03 / C06

def rel_contents():
    return [content(1, p=(1, ["e2"])),                      # 1 single ref
            content(1, p=(2, ["e2", "e3"])),                # 2 array ref
            content(1, p=(1, ["e2"]), q=(1, ["e2"])),       # 3 two predicates between the same pair
            content(2),                                     # 4 no refs
            content(0, d=True),                             # 5 deleted, bare
            content(1, d=True, p=(1, ["e2"])),              # 6 deleted, keeps its refs
            content(1, q=(1, ["e3"]), p=(2, ["e1"]))]       # 7 other predicate, self/array


def ref_combos(steps, contents):
    """(s, o) -> set of (pred, dataset) under which s referenced o at some point of the history."""
    out = {}
    inc = {}       # dataset name -> incarnation (a name can be re-created, or given to another dataset by a rename)
    fresh = [0]
    def incarnation(ds):
        if ds not in inc:
            fresh[0] += 1
            inc[ds] = "%s#%d" % (ds, fresh[0])
        return inc[ds]
    def add(ds, b):
        for e, c in b:
            for q, (k, ts) in contents[c - 1]["refs"].items():
                for o in ts:
                    out.setdefault((e, o), set()).add((q, incarnation(ds)))
    for st in steps:
        if st["a"] == "store":
            add(st["ds"], st["b"])
        elif st["a"] == "txn":
            for ds, b in st["m"]:
                add(ds, b)
        elif st["a"] == "create":
            inc.pop(st["ds"], None)
            incarnation(st["ds"])
        elif st["a"] == "delete":
            inc.pop(st["ds"], None)
        elif st["a"] == "rename":
            if st["ds"] in inc:
                inc[st["to"]] = inc.pop(st["ds"])
            else:
                inc.pop(st["to"], None)
                inc[st["to"]] = incarnation(st["ds"])
                inc.pop(st["ds"], None)
    return out


def classify_c03(contents):
    def classify(r, d):
        q = d.get("query") or {}
        if d["kind"] not in ("related", "restored:related", "related-continued") or not isinstance(q, dict) or not q.get("inverse"):
            return None
        if d["kind"] == "related-continued":
            # pages served through a continuation: only what is returned beyond the reference's answer counts
            act = set(d["actual"] or [])
            exp = set((d["expected"] or {}).get("subset_of") or []) & act
            combos = ref_combos(r["steps"], contents)
            for pair in act - exp:
                if len(combos.get((pair.split(">")[1], q["start"]), ())) >= 2:
                    return "C03-incoming-multi-relation"
            return None
        exp, act = set(d["expected"] or []), set(d["actual"] or [])
        if not isinstance(d["expected"], list):
            return None
        combos = ref_combos(r["steps"], contents)
        for pair in exp ^ act:
            s = pair.split(">")[1]
            if len(combos.get((s, q["start"]), ())) >= 2:
                return "C03-incoming-multi-relation"
        # duplicates only (same set): a referencing entity listed twice
        if exp == act:
            for pair in act:
                s = pair.split(">")[1]
                if len(combos.get((s, q["start"]), ())) >= 2:
                    return "C03-incoming-multi-relation"
        return None
    return classify


def check_C03(tier, seed):
    v = Verdict("C03", tier, seed)
    v.wd = verif.workdir("C03")
    sd = verif.spec_copy(v.wd)
    binary = verif.build_harness(v.wd)
    thorough = tier == "thorough"
    tabs = "plain,native" if thorough else "plain"
    rc = rel_contents()
    rq = [rc[1], rc[2], rc[4], rc[6]]
    kinds = ("rel", "look")
    cl = classify_c03
    # (a) one dataset, delete / un-delete and re-pointing inside one batch
    c = rc if thorough else rq
    datahub_stage(v, sd, binary, "C03_batch", ds=["a"], ent=["e1", "e2", "e3"], preds=("p", "q"), contents=c,
                  max_batch=2, max_steps=2, tables=tabs, kinds=kinds, limits=(0, 1, 2), rotate=True,
                  classify=cl(c), invariants=CORE_INV + ["InIsTransposeOfOut"])
    # (b) two datasets with the same entity in different delete states, all scopes
    datahub_stage(v, sd, binary, "C03_multi", ds=["a", "b"], ent=["e1", "e2", "e3"], preds=("p", "q"),
                  contents=c, max_batch=1, max_steps=3, acts=("store",),
                  tables=tabs, kinds=kinds, limits=(0, 1, 2), rotate=True, classify=cl(c))
    if thorough:
        datahub_stage(v, sd, binary, "C03_txn", ds=["a", "b"], ent=["e1", "e2", "e3"], preds=("p", "q"),
                      contents=rq, max_batch=1, max_steps=2, acts=("store", "txn"),
                      tables=tabs, kinds=kinds, limits=(0, 1, 2), rotate=True, classify=cl(rq))
    # (c) deep sampled histories
    datahub_stage(v, sd, binary, "C03_deep", ds=["a", "b"], ent=["e1", "e2", "e3"], preds=("p", "q"), contents=rc,
                  max_batch=2, max_steps=8 if thorough else 6, acts=("store", "txn"), tables=tabs, kinds=kinds,
                  limits=(0, 1, 2, 3), sample=True, seed=seed, rotate=True, fan=6 if thorough else 5,
                  classify=cl(rc), target=40000 if thorough else 3000)
    v.assumptions = ["scopes are subsets of the existing datasets (a scope naming only unknown datasets is reported separately)",
                     "ids <= 3, predicates <= 2, datasets <= 2, bounded depth"]
    return v.finish(rule=RULE_REPLAY)


# ----------------------------------------------------------------------------
# C06

def rel_contents2():
    """relationship contents over the two-entity universe {e1, e2}"""
    return [content(1, p=(2, ["e2", "e1"])),
            content(1, p=(1, ["e2"]), q=(1, ["e2"])),
            content(0, d=True),
            content(2, q=(1, ["e1"]), p=(2, ["e1"]))]


def check_C06(tier, seed):
    v = Verdict("C06", tier, seed)
    v.wd = verif.workdir("C06")
    sd = verif.spec_copy(v.wd)
    binary = verif.build_harness(v.wd)
    thorough = tier == "thorough"
    tabs = "plain,eqlen" if thorough else "plain"
    rc = rel_contents()
    rq = [rc[1], rc[2], rc[4], rc[6]]
    kinds = ("rel", "look", "past")
    cl = classify_c03
    c = rc if thorough else rq
    # (a) one dataset: versions sharing one commit instant (in-batch), instants between commits (tick)
    c2 = rel_contents2()
    datahub_stage(v, sd, binary, "C06_batch", ds=["a"], ent=["e1", "e2"], preds=("p", "q"), contents=c2,
                  max_batch=2, max_steps=3 if thorough else 2, acts=("store", "tick"), tables=tabs, kinds=kinds,
                  limits=(0, 1), rotate=True, classify=cl(c2), invariants=CORE_INV + ["InIsTransposeOfOut"])
    # (b) two datasets, all scopes, every past instant
    datahub_stage(v, sd, binary, "C06_multi", ds=["a", "b"], ent=["e1", "e2", "e3"], preds=("p", "q"),
                  contents=rq, max_batch=1, max_steps=3, acts=("store", "tick"),
                  tables=tabs, kinds=kinds, limits=(0, 1), rotate=True, classify=cl(rq))
    if thorough:
        # transactions (one instant for two datasets); three steps with transactions do not finish (measured: TLC
        # still generating after 25 min), two steps take about a minute
        datahub_stage(v, sd, binary, "C06_txn", ds=["a", "b"], ent=["e1", "e2", "e3"], preds=("p", "q"),
                      contents=rq, max_batch=1, max_steps=2, acts=("store", "tick", "txn"),
                      tables=tabs, kinds=kinds, limits=(0, 1), rotate=True, classify=cl(rq))
    # (c) deep sampled histories
    datahub_stage(v, sd, binary, "C06_deep", ds=["a", "b"], ent=["e1", "e2", "e3"], preds=("p", "q"), contents=rc,
                  max_batch=2, max_steps=8 if thorough else 6, acts=("store", "txn", "tick"), tables=tabs,
                  kinds=kinds, limits=(0, 2), sample=True, seed=seed, rotate=True, fan=6 if thorough else 5,
                  classify=cl(rc), target=40000 if thorough else 3000)
    v.assumptions = ["each specification instant t is asked at three real instants: just after action t completed, "
                     "exactly at the commit time of action t, and one nanosecond before the commit of action t+1",
                     "relationship answers at past instants are compared as (start, predicate, related id) sets",
                     "maintenance operations (dataset delete, compaction) are excluded here (C07, C12)"]
    return v.finish(rule=RULE_REPLAY)


# ----------------------------------------------------------------------------
# C07 / C19 / C14 (core part)

def mgmt_contents():
    return [content(1, p=(1, ["e2"])), content(0, d=True), content(2, p=(2, ["e1", "e2"]))]


def check_C07(tier, seed):
    v = Verdict("C07", tier, seed)
    v.wd = verif.workdir("C07")
    sd = verif.spec_copy(v.wd)
    binary = verif.build_harness(v.wd)
    thorough = tier == "thorough"
    mc = mgmt_contents()
    kinds = ("ent", "chg", "look", "rel")
    cl = classify_c03
    acts = ("store", "create", "delete", "rename", "gc", "restart")
    # exhaustive: both datasets exist initially; delete / re-create / rename / gc / restart at every position
    datahub_stage(v, sd, binary, "C07_mgmt", spec="SpecCreated", ds=["a", "b"], ent=["e1", "e2"], contents=mc[:2],
                  max_batch=1, max_steps=5 if thorough else 4, acts=acts, tables="plain", kinds=kinds,
                  limits=(0, 1), classify=cl(mc[:2]), rotate=True, per_world=150)
    # exhaustive from the empty hub (creation order, first use of names)
    mc1 = [content(1, p=(1, ["e1"])), content(0, d=True)]
    datahub_stage(v, sd, binary, "C07_fromempty", spec="Spec", ds=["a", "b"], ent=["e1"], contents=mc1,
                  max_batch=1, max_steps=7 if thorough else 6, acts=("store", "create", "delete", "rename", "gc"),
                  tables="plain", kinds=kinds, limits=(0, 1), classify=cl(mc1), rotate=True, per_world=150)
    datahub_stage(v, sd, binary, "C07_deep", spec="Spec", ds=["a", "b", "c"], ent=["e1", "e2"], contents=mc,
                  max_batch=2, max_steps=10 if thorough else 8, acts=acts + ("txn",), tables="plain,eqlen",
                  kinds=kinds, limits=(0, 1), sample=True, seed=seed, fan=5 if thorough else 4, classify=cl(mc),
                  rotate=True, per_world=100, target=30000 if thorough else 3000)
    # process death at every hook point inside create / rename / delete / gc
    crash_mgmt_stage(v, sd, binary, thorough, seed)
    v.assumptions = ["queries whose scope names a dataset that does not exist are not asked (reported separately, DESIGN 8.5)",
                     "crash = death of the hub process at a verifhook point inside create / rename / delete / gc"]
    return v.finish(rule=RULE_REPLAY)


def check_C19(tier, seed):
    v = Verdict("C19", tier, seed)
    v.wd = verif.workdir("C19")
    sd = verif.spec_copy(v.wd)
    binary = verif.build_harness(v.wd)
    thorough = tier == "thorough"
    c = [content(1), content(0, d=True)]
    kinds = ("cat", "ent")
    acts = ("store", "txn", "create", "delete", "rename")
    datahub_stage(v, sd, binary, "C19_mgmt", spec="SpecCreated", ds=["a", "b"], ent=["e1", "e2"], contents=c,
                  max_batch=2, max_steps=3 if thorough else 2, acts=acts, tables="plain", kinds=kinds,
                  rotate=True, per_world=150)
    datahub_stage(v, sd, binary, "C19_fromempty", spec="Spec", ds=["a", "b"], ent=["e1", "e2"], contents=c,
                  max_batch=1, max_steps=6 if thorough else 5, acts=acts, tables="plain", kinds=kinds,
                  rotate=True, per_world=150)
    datahub_stage(v, sd, binary, "C19_deep", spec="Spec", ds=["a", "b", "c"], ent=["e1", "e2", "e3"], contents=c,
                  max_batch=2, max_steps=10 if thorough else 8, acts=acts + ("restart",), tables="plain",
                  kinds=kinds, sample=True, seed=seed, fan=5 if thorough else 4, rotate=True, per_world=100,
                  target=30000 if thorough else 4000)
    v.assumptions = ["proxy / virtual / publicNamespaces settings are checked by the settings stage (later)",
                     "concurrent counter updates are covered by the concurrency stage (C05 machinery)"]
    return v.finish(rule=RULE_REPLAY)


def registry_stage(v, sd, binary, name, max_steps):
    with open(os.path.join(sd, name + ".tla"), "w") as fh:
        fh.write("---- MODULE %s ----\nEXTENDS Registry\n====\n" % name)
    with open(os.path.join(sd, name + ".cfg"), "w") as fh:
        fh.write('SPECIFICATION Spec\nCONSTANTS JobIds = {"j1"} ProvIds = {"prov1"} ContIds = {"c1"} DsIds = {"d1"}\n'
                 'DsKinds = {"plain", "proxy", "virtual", "publicns"} MaxSteps = %d\nVIEW rview\nPROPERTY RestartKeeps\n'
                 'CONSTRAINT REmit\nCHECK_DEADLOCK FALSE\n' % max_steps)
    out = os.path.join(v.wd, name + ".out")
    st = verif.run_tlc(sd, name, out, workers=4)
    v.add_tlc(st)
    tot, results = verif.replay(binary, v.wd, out, label=name, test="TestRegistry")
    v.add_replay(tot, results, label=name)
    os.remove(out)


def check_C14(tier, seed):
    v = Verdict("C14", tier, seed)
    v.wd = verif.workdir("C14")
    sd = verif.spec_copy(v.wd)
    binary = verif.build_harness(v.wd)
    thorough = tier == "thorough"
    mc = mgmt_contents()
    kinds = ("ent", "chg", "look", "rel", "cat")
    cl = classify_c03
    acts = ("store", "txn", "create", "delete", "rename", "restart")
    # restart inserted at every position of every bounded history; the suffix runs on the restarted hub
    datahub_stage(v, sd, binary, "C14_core", spec="SpecCreated", ds=["a", "b"], ent=["e1", "e2"], contents=mc[:2],
                  max_batch=1, max_steps=5 if thorough else 4, acts=("store", "delete", "create", "rename", "restart"),
                  tables="plain", kinds=kinds, limits=(0, 1), classify=cl(mc[:2]), rotate=True, per_world=100)
    datahub_stage(v, sd, binary, "C14_deep", spec="Spec", ds=["a", "b", "c"], ent=["e1", "e2", "e3"], contents=mc,
                  max_batch=2, max_steps=10 if thorough else 8, acts=acts + ("gc",), tables="plain,eqlen",
                  kinds=kinds, limits=(0, 1, 2), sample=True, seed=seed, fan=5 if thorough else 4, classify=cl(mc),
                  rotate=True, per_world=100, target=20000 if thorough else 2500)
    # what else the hub remembers: job definitions / paused flags / tokens / history / cron registration, login
    # providers, content, dataset settings, catalogue entities, namespaces (spec/Registry.tla)
    registry_stage(v, sd, binary, "C14_registry", 4 if thorough else 3)
    v.assumptions = ["restart = Store.Close + NewStore + NewDsManager (+ NewScheduler, NewProviderManager, content service) on "
                     "the same directory, at quiescent points",
                     "security clients and ACLs across restart: stage C16_persist (spec/AuthzPersist.tla)"]
    return v.finish(rule=RULE_REPLAY)


# ----------------------------------------------------------------------------
# C12 (sequential part)

def compact_contents():
    return [content(1, p=(1, ["e2"])),      # A
            content(2, p=(1, ["e2"])),      # B: same reference, other properties
            content(0, d=True),             # deleted, bare
            content(1, d=True, p=(1, ["e2"])),  # deleted A
            content(1)]                     # A without the reference


def check_C12(tier, seed):
    v = Verdict("C12", tier, seed)
    v.wd = verif.workdir("C12")
    sd = verif.spec_copy(v.wd)
    binary = verif.build_harness(v.wd)
    thorough = tier == "thorough"
    cc = compact_contents()
    kinds = ("ent", "chg", "look", "rel", "past")
    cl = classify_c03
    acts = ("store", "dup", "compact")
    # (a) values flipping back and forth, references kept across property changes, legacy duplicates at every position
    datahub_stage(v, sd, binary, "C12_seq", ds=["a"], ent=["e1", "e2"], contents=cc[:4], max_batch=1,
                  max_steps=5 if thorough else 4, acts=acts, tables="plain", kinds=kinds, limits=(0, 1),
                  classify=cl(cc[:4]), rotate=True, per_world=150)
    # (b) bystander dataset, in-batch versions, writes after compaction
    datahub_stage(v, sd, binary, "C12_deep", ds=["a", "b"], ent=["e1", "e2"], contents=cc, max_batch=2,
                  max_steps=9 if thorough else 7, acts=acts + ("txn", "tick"), tables="plain,eqlen", kinds=kinds,
                  limits=(0, 1, 2), sample=True, seed=seed, fan=5 if thorough else 4, classify=cl(cc), rotate=True,
                  per_world=150, target=40000 if thorough else 4000)
    # (c) process death between two flushes of the compactor (threshold 1: one flush per removed version)
    datahub_stage(v, sd, binary, "C12_crash", ds=["a"], ent=["e1", "e2"], contents=cc[:3], max_batch=2,
                  max_steps=5, acts=("store", "dup", "compact"), tables="plain", kinds=("ent", "chg", "look", "rel"),
                  limits=(0, 1), classify=cl(cc[:3]), track_pre=True, replay_fn=CRASH, sample=True, seed=seed, fan=4,
                  target=2500 if thorough else 350)
    v.assumptions = ["legacy duplicate versions are injected the way the repository's compact_test.go does it",
                     "flush thresholds 1, 2 and the product default rotate over behaviours (crash children: 1)",
                     "after a kill between flushes the full feed may still contain duplicates the finished run would have "
                     "removed; everything else must be unchanged", "writers racing the compactor: not covered"]
    return v.finish(rule=RULE_REPLAY)


# ----------------------------------------------------------------------------
# C20

def check_C20(tier, seed):
    v = Verdict("C20", tier, seed)
    v.wd = verif.workdir("C20")
    sd = verif.spec_copy(v.wd)
    binary = verif.build_harness(v.wd)
    thorough = tier == "thorough"
    mc = mgmt_contents()
    kinds = ("ent", "chg", "look", "rel", "cat")
    cl = classify_c03
    acts = ("store", "backup", "restart", "foreign")
    datahub_stage(v, sd, binary, "C20_seq", ds=["a"], ent=["e1", "e2"], contents=mc[:2], max_batch=1,
                  max_steps=6 if thorough else 5, acts=acts, tables="plain", kinds=kinds, limits=(0, 1),
                  classify=cl(mc[:2]), rotate=True, per_world=60)
    datahub_stage(v, sd, binary, "C20_deep", spec="Spec", ds=["a", "b"], ent=["e1", "e2"], contents=mc,
                  max_batch=2, max_steps=10 if thorough else 8, acts=acts + ("txn", "create", "delete", "rename"),
                  tables="plain,eqlen", kinds=kinds, limits=(0, 1), sample=True, seed=seed,
                  fan=5 if thorough else 4, classify=cl(mc), rotate=True, per_world=60,
                  target=10000 if thorough else 1500)
    # the storage engine compacts its LSM tree between backup runs (dataset deletion, gc and re-creation around it)
    datahub_stage(v, sd, binary, "C20_lsm", spec="SpecCreated", ds=["a", "b"], ent=["e1", "e2"], contents=mc[:2], max_batch=1,
                  max_steps=5 if thorough else 4, acts=("store", "backup", "delete", "create", "gc", "lsm"), tables="plain",
                  kinds=kinds, limits=(0,), classify=cl(mc[:2]), rotate=True, per_world=20, require_act="lsm",
                  allowed=[("a", "e1", 1), ("b", "e1", 2)])
    v.assumptions = ["native backup mode (badger Backup/Load); restore = badger Load of datahub-backup.kv into an empty "
                     "directory followed by a normal hub start", "one fresh store per behaviour"]
    return v.finish(rule=RULE_REPLAY)


# ----------------------------------------------------------------------------
# jobs engine: C08, C10

def jobs_stage(v, sd, binary, name, *, ds, ent, contents, jobs, writable, faults=({"k": "none"},),
               types=("incremental",), fill=(), max_batch=1, max_steps=3, acts=("store", "job"),
               kinds=("ent", "chg"), limits=(0,), tables="plain", classify=None, sample=False, seed=None, fan=4,
               rotate=True, target=None, per_world=200, props=("Converges", "TokenSafe", "Idempotent"),
               tlc_timeout=1500, track_pre=False, replay_fn=None):
    consts = {"DsSeq": list(ds), "Ent": set(ent), "MaxBatch": max_batch, "MaxSteps": max_steps, "Acts": set(acts),
              "ObsKinds": set(kinds), "Limits": set(limits), "Fan": fan, "Precreated": True,
              "Writable": set(writable), "Readers": set(), "TrackPre": track_pre, "Allowed": set(),
              "JobSeq": [dict(j, src=list(j["src"])) for j in jobs],
              "JobTypes": set(types), "FillNs": set(fill),
              "Faults": verif.Raw("{" + ", ".join(verif.tla_value(f) for f in faults) + "}")}
    spec = "JSpecCreated" + ("Sample" if sample else "")
    verif.gen_mc(sd, name, "Jobs", consts, spec, invariants=["TypeOK"] if sample else CORE_INV,
                 props=() if sample else props, view=None if sample else "jview", contents=contents,
                 constraint="JEmit", header="JEmitHeader")
    out = os.path.join(v.wd, name + ".out")
    st = verif.run_tlc(sd, name, out, timeout=tlc_timeout, seed=seed if sample else None, workers=1 if sample else None)
    v.add_tlc(st)
    stride_extra = 1
    if target and st["emitted"] > target:
        stride_extra = -(-st["emitted"] // target)
        v.cov["stages"].append({"name": name + ":thinned", "emitted": st["emitted"], "replayed_every": stride_extra})
    tot, results = verif.replay(binary, v.wd, out, tables=tables, adapters="go", label=name, stride_extra=stride_extra,
                                per_world=per_world, rotate=rotate, seed=v.seed, **(replay_fn or {}))
    v.add_replay(tot, results, classify=classify, label=name)
    os.remove(out)
    return st, tot


def job(id, src, sink, batch=1, lo=False, xf="none", par=1):
    return {"id": id, "src": list(src), "sink": sink, "batch": batch, "lo": lo, "xf": xf, "par": par}


JOB_FAULTS = [{"k": "none"}, {"k": "before", "n": 1}, {"k": "before", "n": 2}, {"k": "after", "n": 1},
              {"k": "after", "n": 2}, {"k": "kill", "n": 1}]


def job_contents():
    # closed under "mark deleted" (full sync tombstones)
    return [content(1), content(2), content(1, d=True), content(2, d=True)]


def check_C08(tier, seed):
    v = Verdict("C08", tier, seed)
    v.wd = verif.workdir("C08")
    sd = verif.spec_copy(v.wd)
    binary = verif.build_harness(v.wd)
    thorough = tier == "thorough"
    jc = job_contents()
    types = ("incremental", "fullsync")
    d = 4 if thorough else 3
    # (a) one source, batch size 1, every fault position, incremental and fullsync runs interleaved with writes
    jobs_stage(v, sd, binary, "C08_b1", ds=["a", "s"], ent=["e1", "e2"], contents=jc, writable=["a"],
               jobs=[job("j1", ["a"], "s", batch=1)], faults=JOB_FAULTS, types=types, max_steps=d)
    # (b) batch size 2, latest-only source
    jobs_stage(v, sd, binary, "C08_b2lo", ds=["a", "s"], ent=["e1", "e2"], contents=jc, writable=["a"],
               jobs=[job("j1", ["a"], "s", batch=2, lo=True)], faults=JOB_FAULTS, types=types, max_steps=d)
    # (c) union of two sources with disjoint id pools
    jobs_stage(v, sd, binary, "C08_union", ds=["a", "b", "s"], ent=["e1", "e2"], contents=jc[:3], writable=["a", "b"],
               jobs=[job("j1", ["a", "b"], "s", batch=1)], faults=JOB_FAULTS[:4], types=("incremental",),
               max_steps=d)
    # (d) deep sampled: two jobs (different batch sizes) into two sinks, all faults
    jobs_stage(v, sd, binary, "C08_deep", ds=["a", "b", "s", "t"], ent=["e1", "e2", "e3"], contents=jc,
               writable=["a", "b"], max_batch=2,
               jobs=[job("j1", ["a"], "s", batch=2), job("j2", ["a", "b"], "t", batch=1), job("j3", ["b"], "s", batch=3, lo=True)],
               faults=JOB_FAULTS, types=types, max_steps=8 if thorough else 6, sample=True, seed=seed,
               fan=4 if thorough else 3, target=30000 if thorough else 4000)
    v.assumptions = ["a run is executed synchronously through job.Run() with a recording / fault-injecting sink around "
                     "the configured DatasetSink (overlay code, no product change)",
                     "'after n' models the crash window between sink write and token store without killing the process; "
                     "real process kills are part of the crash stage (C04)",
                     "internal ids of the entity universe are pre-asserted in header order (order of full-sync deletions)"]
    return v.finish(rule=RULE_REPLAY)


def partition_stage(v, sd, max_n, max_p, as_coded=False):
    """TLC over the (n, p) box of spec/Partition.tla."""
    name = "Partition_%s" % ("ascoded" if as_coded else "fixed")
    with open(os.path.join(sd, name + ".tla"), "w") as fh:
        fh.write("---- MODULE %s ----\nEXTENDS Partition\n====\n" % name)
    with open(os.path.join(sd, name + ".cfg"), "w") as fh:
        fh.write("SPECIFICATION Spec\nCONSTANTS MaxN = %d MaxP = %d AsCoded = %s\n"
                 "INVARIANTS NoNegativeChunk Covered Disjoint Ordered\nCHECK_DEADLOCK FALSE\n"
                 % (max_n, max_p, "TRUE" if as_coded else "FALSE"))
    out = os.path.join(v.wd, name + ".out")
    st = verif.run_tlc(sd, name, out, timeout=600)
    return st


def check_C10(tier, seed):
    v = Verdict("C10", tier, seed)
    v.wd = verif.workdir("C10")
    sd = verif.spec_copy(v.wd)
    binary = verif.build_harness(v.wd)
    thorough = tier == "thorough"
    # (0) chunk arithmetic over the whole box (design level; the code is bound to it by the runs below)
    st = partition_stage(v, sd, 200 if thorough else 64, 64 if thorough else 16)
    v.add_tlc(st)
    N = 24 if thorough else 12
    P = 8 if thorough else 6
    ents = ["e%02d" % i for i in range(1, N + 1)]
    one = [content(1)]
    # (a) every (n, p) of the box: one page of n entities through an identity transform with parallelism p, then
    #     a second run (must add nothing)
    jobs_stage(v, sd, binary, "C10_box", ds=["a", "s"], ent=ents, contents=one, writable=["a"],
               jobs=[job("p%d" % p, ["a"], "s", batch=1000, xf="identity", par=p) for p in range(1, P + 1)],
               fill=range(1, N + 1), acts=("fill", "job"), max_steps=3, tables="plain", props=("TokenSafe", "Idempotent"),
               rotate=True)
    # (b) batch sizes below n: several pages, each split again
    n2 = 9 if thorough else 7
    jobs_stage(v, sd, binary, "C10_pages", ds=["a", "s"], ent=ents[:n2], contents=one, writable=["a"],
               jobs=[job("b%dp%d" % (b, p), ["a"], "s", batch=b, xf="identity", par=p) for b in (1, 2, 3, 5) for p in (2, 3, 4)],
               fill=range(1, n2 + 1), acts=("fill", "job"), max_steps=2, tables="plain,shapes", types=("incremental", "fullsync"),
               props=("TokenSafe", "Idempotent"), rotate=True)
    # (c) transforms that duplicate or drop entities, over histories with deleted versions
    jc = job_contents()
    jobs_stage(v, sd, binary, "C10_xf", ds=["a", "s"], ent=["e1", "e2"], contents=jc, writable=["a"], max_batch=2 if thorough else 1,
               jobs=[job("dup", ["a"], "s", batch=2, xf="dup", par=2), job("drop", ["a"], "s", batch=3, xf="dropdel", par=3),
                     # pages of one: a page whose transform output is empty is not the end of the source
                     job("drop1", ["a"], "s", batch=1, xf="dropdel", par=1),
                     job("plain", ["a"], "s", batch=2, xf="none")],
               types=("incremental", "fullsync"), max_steps=3, tables="plain,shapes",
               props=("TokenSafe", "Idempotent"), rotate=True)
    v.assumptions = ["what reaches the sink is recorded by a wrapper around the configured DatasetSink; with an identity "
                     "transform this is exactly what the transform was given and returned",
                     "JavaScript transforms: identity, duplicate-each, drop-deleted; parallelism applies to incremental runs"]
    return v.finish(rule=RULE_REPLAY)


# ----------------------------------------------------------------------------
# crash stages (C04, crash parts of C07, C08, C12)

CRASH = {"test": "TestCrash", "extra_env": {"VERIF_HITS": "2"}}
RULE_CRASH = ("for every behaviour emitted by TLC and every hook point of its last step (each at hit counts 1..2, plus a "
              "kill right after the acknowledgement) a child process executes the behaviour on a fresh store and dies "
              "there with os.Exit (no Close); the parent reopens the store and compares every read API with the "
              "specification's state before the interrupted step and after it (acknowledged steps: after it), then "
              "writes again. evaluations = compared answers; distinct_nontrivial = distinct (behaviour, point, hit) "
              "triples whose child actually died at the point or completed")


def crash_data_stage(v, sd, binary, thorough, seed):
    mc = mgmt_contents()
    datahub_stage(v, sd, binary, "CR_data", ds=["a", "b"], ent=["e1", "e2"], contents=mc[:2], max_batch=1,
                  max_steps=3 if thorough else 2, acts=("store", "txn"), tables="plain,eqlen",
                  kinds=("ent", "chg", "look", "rel"), limits=(0, 1), classify=classify_c03(mc[:2]),
                  track_pre=True, replay_fn=CRASH, target=4000 if thorough else 300)
    # a batch that was refused as a whole, then (parts of) it sent again, then the kill
    datahub_stage(v, sd, binary, "CR_reject", ds=["a"], ent=["e1", "e2"], contents=mc[:2], max_batch=1,
                  max_steps=3 if thorough else 2, acts=("store", "reject"), tables="plain",
                  kinds=("ent", "chg", "look", "rel"), limits=(0, 1), classify=classify_c03(mc[:2]),
                  track_pre=True, replay_fn=CRASH, require_act="reject")
    datahub_stage(v, sd, binary, "CR_batch", ds=["a"], ent=["e1", "e2"], contents=mc, max_batch=2,
                  max_steps=2, acts=("store",), tables="plain", kinds=("ent", "chg", "look", "rel"), limits=(0, 1),
                  classify=classify_c03(mc), track_pre=True, replay_fn=CRASH, target=3000 if thorough else 200)


def crash_mgmt_stage(v, sd, binary, thorough, seed):
    mc = mgmt_contents()
    datahub_stage(v, sd, binary, "CR_mgmt", spec="SpecCreated", ds=["a", "b"], ent=["e1", "e2"], contents=mc[:2],
                  max_batch=1, max_steps=3, acts=("store", "create", "delete", "rename", "gc"), tables="plain",
                  kinds=("ent", "chg", "look", "rel"), limits=(0, 1), classify=classify_c03(mc[:2]), track_pre=True,
                  replay_fn=CRASH, target=4000 if thorough else 300)


def crash_job_stage(v, sd, binary, thorough, seed):
    jc = job_contents()
    faults = [{"k": "none"}, {"k": "after", "n": 1}, {"k": "after", "n": 2}]
    jobs_stage(v, sd, binary, "CR_job", ds=["a", "s"], ent=["e1", "e2"], contents=jc[:3], writable=["a"],
               jobs=[job("j1", ["a"], "s", batch=1), job("j2", ["a"], "s", batch=2, lo=True)], faults=faults,
               types=("incremental", "fullsync"), max_steps=4 if thorough else 3, track_pre=True, replay_fn=CRASH,
               target=3000 if thorough else 200)


def check_C04(tier, seed):
    v = Verdict("C04", tier, seed)
    v.wd = verif.workdir("C04")
    sd = verif.spec_copy(v.wd)
    binary = verif.build_harness(v.wd)
    thorough = tier == "thorough"
    crash_data_stage(v, sd, binary, thorough, seed)
    crash_mgmt_stage(v, sd, binary, thorough, seed)
    crash_job_stage(v, sd, binary, thorough, seed)
    v.assumptions = ["crash = death of the hub process at a hook point (os.Exit in the handler, nothing deferred runs); "
                     "power loss / unsynced page cache is outside (badger SyncWrites=false)",
                     "an operation counts as acknowledged when its API call returned in the child",
                     "crash points are the verifhook.Point call sites of commit 7a8f971"]
    return v.finish(rule=RULE_CRASH, level="model_checking")


# ----------------------------------------------------------------------------
# C13

NS_URIS = [
    {"uri": "http://ex.test/a/x1", "exp": "http://ex.test/a/", "local": "x1"},
    {"uri": "http://ex.test/a/x2", "exp": "http://ex.test/a/", "local": "x2"},
    {"uri": "http://ex.test/b#y", "exp": "http://ex.test/b#", "local": "y"},
    {"uri": "https://ex.test/c/", "exp": "https://ex.test/c/", "local": ""},
    {"uri": "http://ex.test/d/p:q", "exp": "http://ex.test/d/", "local": "p:q"},
    {"uri": "http://ex.test/e/f#g/h", "exp": "http://ex.test/e/f#", "local": "g/h"},
]


TRACE_MODULES = {"C13": "TraceNamespace", "C05": "TraceLin", "C19": "TraceLin", "C11": "TraceRaffle"}


def trace_violation(v, label, trace_file, line, what):
    path = os.path.join(v.wd, "replay-%s-trace.json" % label)
    keep = os.path.join(v.wd, "replay-%s-trace.ndjson" % label)
    verif.shutil.copyfile(trace_file, keep)     # the recorded trace itself: bin/replay validates it again
    trace_file = keep
    ctx = []
    with open(trace_file) as fh:
        for i, l in enumerate(fh, 1):
            if line - 6 <= i <= line:
                ctx.append(l.strip())
    with open(path, "w") as fh:
        json.dump({"property": v.prop, "stage": label, "trace_file": trace_file, "rejected_line": line,
                   "module": TRACE_MODULES.get(v.prop), "context": ctx, "what": what}, fh, indent=1)
    v.violations.append(("%s: %s; line %d: %s" % (label, what, line, ctx[-1] if ctx else ""), path))


def check_C13(tier, seed):
    v = Verdict("C13", tier, seed)
    v.wd = verif.workdir("C13")
    sd = verif.spec_copy(v.wd)
    binary = verif.build_harness(v.wd)
    thorough = tier == "thorough"
    # (a) TLC generates operation sequences over the URI shapes with restarts; the harness executes them, compares
    #     what the specification determines and records every pair handed out
    name = "C13_seq"
    consts = {"UriSeq": NS_URIS, "MaxSteps": 5 if thorough else 4}
    verif.gen_mc(sd, name, "Namespace", consts, "Spec", props=("GrowOnly",), view="nview", constraint="NEmit", header="TRUE")
    out = os.path.join(v.wd, name + ".out")
    st = verif.run_tlc(sd, name, out)
    v.add_tlc(st)
    tot, results = verif.replay(binary, v.wd, out, label=name, test="TestNamespace",
                                extra_env={"VERIF_TRACE": "{wd}/ns_trace_{i}.ndjson"})
    v.add_replay(tot, results, label=name)
    os.remove(out)
    # (b) concurrent namespace / id assertion against context readers and serialisers, in a child process
    stress = os.path.join(v.wd, "ns_stress.ndjson")
    secs = 12 if thorough else 4
    for k, gmp in enumerate(["16", "4"] if thorough else ["16"]):
        p = verif.subprocess.run([binary, "-test.run", "^TestNamespaceStress$", "-test.timeout", "0"], cwd=v.wd,
                                 env=dict(os.environ, VERIF_TRACE=stress + str(k), VERIF_DIR=os.path.join(v.wd, "stress%d" % k),
                                          VERIF_SECONDS=str(secs), VERIF_SEED=str(seed), GOMAXPROCS=gmp),
                                 capture_output=True, text=True)
        verif.shutil.rmtree(os.path.join(v.wd, "stress%d" % k), ignore_errors=True)
        if p.returncode != 0:
            txt = p.stdout + p.stderr
            m = verif.re.search(r"^(fatal error: .*|panic: .*)$", txt, verif.re.M)
            if m and "mimiro-io/datahub/internal/" in txt:
                path = os.path.join(v.wd, "replay-C13_stress-%d.json" % k)
                with open(path, "w") as fh:
                    json.dump({"property": "C13", "stage": "C13_stress", "what": m.group(1), "gomaxprocs": gmp,
                               "log_tail": txt[-4000:]}, fh, indent=1)
                v.violations.append(("C13_stress: hub process died: " + m.group(1), path))
                continue
            verif.sys.stderr.write(txt[-3000:])
            raise Inconclusive("namespace stress driver failed")
    # (c) TLC decides whether everything the hub handed out is one grow-only bijection
    trace = os.path.join(v.wd, "ns_trace_all.ndjson")
    n_traces = 0
    with open(trace, "w") as outfh:
        for f in sorted(os.listdir(v.wd)):
            if f.startswith("ns_trace_") and f != "ns_trace_all.ndjson" or f.startswith("ns_stress.ndjson"):
                with open(os.path.join(v.wd, f)) as fh:
                    for line in fh:
                        outfh.write(line)
                        if '"k":"reset"' in line:
                            n_traces += 1
    ok, nlines, line, tst = verif.validate_trace(v.wd, sd, "TraceNamespace", trace)
    v.cov["states"] += tst["distinct"]
    v.cov["transitions"] += tst["generated"]
    v.cov["traces_validated_against_impl"] += n_traces
    v.cov["stages"].append({"name": "TraceNamespace", "lines": nlines, "traces": n_traces, "accepted": ok})
    if not ok:
        trace_violation(v, "C13_trace", trace, line, "handed-out prefixes / ids are not one grow-only bijection, or a round trip failed")
    v.assumptions = ["prefix tokens and internal ids are chosen by the hub; the specification constrains them as a grow-only bijection",
                     "the concurrent part observes a Go-runtime detected map race probabilistically (seconds of stress per run)"]
    return v.finish(rule="(a) operation sequences emitted by TLC from spec/Namespace.tla, executed on the real store with "
                    "restarts; (b) seeded concurrent stress in a child process; (c) every recorded pair validated by TLC "
                    "against spec/TraceNamespace.tla. evaluations = compared answers; distinct_nontrivial = non-empty sequences")


# ----------------------------------------------------------------------------
# C05

def locks_stage(v, sd):
    """TLC deadlock check of the lock protocol (spec/Locks.tla) as the code implements it now."""
    scen = {
        "two_txn_same_pair_plus_writer": ('("p1" :> <<"a","b">>) @@ ("p2" :> <<"a","b">>) @@ ("p3" :> <<"a">>)', '[p \\in MC_Procs |-> IF p = "p3" THEN "w" ELSE "t"]'),
        "txn_with_core_and_writers": ('("p1" :> <<"a","core">>) @@ ("p2" :> <<"b">>) @@ ("p3" :> <<"a">>)', '[p \\in MC_Procs |-> IF p = "p1" THEN "t" ELSE "w"]'),
        "three_txn_overlapping": ('("p1" :> <<"a","b">>) @@ ("p2" :> <<"b","c">>) @@ ("p3" :> <<"a","c","core">>)', '[p \\in MC_Procs |-> "t"]'),
    }
    for k, (targets, kind) in scen.items():
        name = "Locks_" + k
        with open(os.path.join(sd, name + ".tla"), "w") as fh:
            fh.write("---- MODULE %s ----\nEXTENDS Locks\nMC_Procs == {\"p1\",\"p2\",\"p3\"}\nMC_Kind == %s\nMC_Targets == %s\n====\n" % (name, kind, targets))
        with open(os.path.join(sd, name + ".cfg"), "w") as fh:
            fh.write("SPECIFICATION Spec\nCONSTANTS Procs <- MC_Procs Kind <- MC_Kind Targets <- MC_Targets AsCoded = FALSE\nINVARIANT MutualExclusion\n")
        st = verif.run_tlc(sd, name, os.path.join(v.wd, name + ".out"), timeout=300, workers=4)
        if st["error"] and "Deadlock" in st["tail"]:
            raise Inconclusive("Locks.tla (protocol as implemented) deadlocks in the model: the model no longer describes a "
                               "deadlock-free protocol; the stress stage decides about the code")
        v.add_tlc(st)


def check_C05(tier, seed):
    v = Verdict("C05", tier, seed)
    v.wd = verif.workdir("C05")
    sd = verif.spec_copy(v.wd)
    binary = verif.build_harness(v.wd)
    thorough = tier == "thorough"
    locks_stage(v, sd)
    bursts = 40 if thorough else 8
    import concurrent.futures as cf

    def burst(k):
        gmp = ["16", "4", "2", "1"][(k // 2) % 4]
        tr = os.path.join(v.wd, "lin_%d.ndjson" % k)
        d = os.path.join(v.wd, "st_%d" % k)
        env = dict(os.environ, VERIF_TRACE=tr, VERIF_DIR=d, VERIF_OPS=str(14 if thorough else 10),
                   VERIF_SEED=str(seed * 100 + k), GOMAXPROCS=gmp, VERIF_WIDE="1" if k % 2 == 1 else "0",
                   VERIF_OPS_WIDE=str(400 if thorough else 250))
        try:
            p = verif.subprocess.run([binary, "-test.run", "^TestConcurrency$", "-test.timeout", "0"], cwd=v.wd, env=env,
                                     capture_output=True, text=True, timeout=180)
            rc, txt = p.returncode, p.stdout + p.stderr
        except verif.subprocess.TimeoutExpired as e:
            rc, txt = 98, "driver timeout (no exit within 180 s)\n" + str(e.stdout)[-2000:]
        verif.shutil.rmtree(d, ignore_errors=True)
        return k, gmp, rc, txt, tr

    results = []
    with cf.ThreadPoolExecutor(max_workers=4) as ex:
        for r in ex.map(burst, range(bursts)):
            results.append(r)
    nviol = 0
    for k, gmp, rc, txt, tr in results:
        if rc == 0:
            continue
        m = verif.re.search(r"^(fatal error: .*|panic: .*|HANG: .*)$", txt, verif.re.M)
        if rc in (97, 98) or (m and "mimiro-io/datahub/internal/" in txt):
            nviol += 1
            path = os.path.join(v.wd, "replay-C05_stress-%d.json" % k)
            with open(path, "w") as fh:
                json.dump({"property": "C05", "stage": "C05_stress", "seed": seed * 100 + k, "gomaxprocs": gmp,
                           "what": m.group(1) if m else "hang", "log_tail": txt[-6000:]}, fh, indent=1)
            if nviol <= 3:
                v.violations.append(("C05_stress: clients did not all complete: %s" % (m.group(1) if m else "hang/timeout"), path))
        else:
            verif.sys.stderr.write(txt[-2000:])
            raise Inconclusive("concurrency driver failed (exit %d)" % rc)

    def validate(item):
        k, gmp, rc, txt, tr = item
        if rc != 0:
            return k, None
        sdk = os.path.join(v.wd, "spec_tv_%d" % k)
        verif.shutil.copytree(sd, sdk)
        ok, nlines, line, tst = verif.validate_trace(sdk, sdk, "TraceLin", tr, invariants=("CountersAgree",))
        verif.shutil.rmtree(sdk, ignore_errors=True)
        return k, (ok, nlines, line, tst, tr)

    with cf.ThreadPoolExecutor(max_workers=4) as ex:
        vals = list(ex.map(validate, results))
    for k, r in vals:
        if r is None:
            continue
        ok, nlines, line, tst, tr = r
        v.cov["states"] += tst["distinct"]
        v.cov["transitions"] += tst["generated"]
        v.cov["traces_validated_against_impl"] += 1
        v.cov["evaluations"] += nlines
        v.cov["distinct_nontrivial"] += 1
        if len(v.cov["samples"]) < 2:
            v.cov["samples"].append([json.loads(l) for l in open(tr).readlines()[:6]])
        if not ok:
            what = ("invariant %s violated" % tst.get("invariant")) if line == -1 else (
                "no total order of the acknowledged writes explains the final feeds (or a read saw part of a batch / "
                "transaction, or the lock-order graph has a cycle)" if line > nlines else "event not allowed by the reference")
            trace_violation(v, "C05_trace_%d" % k, tr, min(max(line, 1), nlines), what)
    v.cov["stages"].append({"name": "C05_stress", "bursts": bursts, "hung_or_crashed": nviol})
    v.assumptions = ["each burst: 3 batch writers, 3 transaction clients naming {a,b} in both orders, 1 transaction client that "
                     "includes core.Dataset, 1 dataset create/delete client, 3 readers; seeds x GOMAXPROCS in {16,4,2,1}",
                     "writes carry unique tags, so the final feeds are a witness of the order in which writes took effect",
                     "a hang is declared when no client completes an operation for 10 s"]
    return v.finish(rule="spec/Locks.tla model-checked for deadlock freedom; concurrent stress bursts of the real hub in "
                    "child processes with a progress watchdog; every recorded trace validated by TLC against "
                    "spec/TraceLin.tla (linearization of the acknowledged writes that extends client order and yields the "
                    "final feeds, atomic reads, acyclic lock order, counters). evaluations = trace lines; "
                    "distinct_nontrivial = validated bursts")


# ----------------------------------------------------------------------------
# C09

def fullsync_stage(v, sd, binary, name, *, contents, max_steps, acts=("http", "expire", "jobsync"), sample=False,
                   seed=None, fan=4, target=None, ent=("e1", "e2"), sync_ids=("s1", "s2"), max_batch=1):
    outs = {}
    variants = (("ref", False), ("asis", True)) if os.environ.get("VERIF_ASIS") else (("ref", False),)
    for variant, asis in variants:
        consts = {"DsSeq": ["a"], "Ent": set(ent), "MaxBatch": max_batch, "MaxSteps": max_steps, "Acts": set(acts),
                  "ObsKinds": {"ent", "chg"}, "Limits": {0}, "Fan": fan, "Precreated": True, "Writable": {"a"},
                  "TrackPre": False, "Allowed": set(), "Readers": set(), "AsIs": asis, "SyncIds": set(sync_ids), "FsDs": "a"}
        nm = "%s_%s" % (name, variant)
        verif.gen_mc(sd, nm, "FullSync", consts, "FSpec" + ("Sample" if sample else ""),
                     invariants=["TypeOK"], props=() if (asis or sample) else ("FsProps",), view=None if sample else "fview",
                     contents=contents, constraint="Emit")
        out = os.path.join(v.wd, nm + ".out")
        st = verif.run_tlc(sd, nm, out, seed=seed if sample else None, workers=1 if sample else None)
        if not asis:
            v.add_tlc(st)
        outs[variant] = (out, st)
    out, st = outs["ref"]
    stride_extra = 1
    if target and st["emitted"] > target:
        stride_extra = -(-st["emitted"] // target)
        v.cov["stages"].append({"name": name + ":thinned", "emitted": st["emitted"], "replayed_every": stride_extra})
    tot, results = verif.replay(binary, v.wd, out, tables="plain", adapters="go", label=name, stride_extra=stride_extra,
                                per_world=150, rotate=True, seed=v.seed,
                                extra_env={"VERIF_ASIS_OUT": outs["asis"][0]} if "asis" in outs else None)

    def classify(r, d):
        # known findings of C09 are identified by the history: the first step at which the pinned code is known to
        # leave the reference (x.own = owner of the running sync according to the reference, logged by the spec)
        fs_steps = [s for s in r.get("steps", []) if s["a"] in ("http", "expire", "jobstart", "jobbatch", "jobend")]
        trig, which = None, None
        for i, s in enumerate(fs_steps):
            x = s.get("x") or {}
            if s["a"] == "http" and not s.get("start") and s.get("id", "") == "" and x.get("own") == "job":
                trig, which = i, "C09-lease-on-job-sync"
                break
            if s["a"] == "jobend" and x.get("completes") is False:
                trig, which = i, "C09-ownerless-complete"
                break
        if trig is None:
            return None
        q = d.get("query")
        at = q.get("index") if isinstance(q, dict) and d["kind"] == "step-answer" else len(fs_steps)
        return which if at >= trig else None
    v.add_replay(tot, results, classify=classify, label=name)
    for o, _ in outs.values():
        os.remove(o)


def check_C09(tier, seed):
    v = Verdict("C09", tier, seed)
    v.wd = verif.workdir("C09")
    sd = verif.spec_copy(v.wd)
    binary = verif.build_harness(v.wd)
    thorough = tier == "thorough"
    fc = [content(1), content(2), content(1, d=True), content(2, d=True)]
    fullsync_stage(v, sd, binary, "C09_all", contents=fc[:1] + fc[2:3], max_steps=5 if thorough else 4,
                   target=250000 if thorough else 60000)
    fullsync_stage(v, sd, binary, "C09_deep", contents=fc, max_steps=9 if thorough else 7, sample=True, seed=seed,
                   fan=6 if thorough else 5, target=30000 if thorough else 8000, ent=("e1", "e2", "e3"), max_batch=2)
    v.assumptions = ["HTTP syncs go through the real router and handler (POST /datasets/{ds}/entities with the "
                     "universal-data-api-full-sync-* headers); job syncs drive the DatasetSink of a job configuration with "
                     "the calls a fullsync pipeline makes (startFullSync, processEntities, endFullSync)",
                     "lease expiry is forced through the product's own lease goroutine (refresh of the running sync's "
                     "lease with a 1ns timeout), never inferred from wall-clock time",
                     "a request carrying a sync id while no sync is running is a plain write (as the handler documents)"]
    return v.finish(rule=RULE_REPLAY)


# ----------------------------------------------------------------------------
# C17

def eh_stage(v, sd, binary, name, mode, max_b, pages, retries=(0,)):
    with open(os.path.join(sd, name + ".tla"), "w") as fh:
        fh.write("---- MODULE %s ----\nEXTENDS ErrorHandling\nMC_Pages == %s\nMC_Retries == %s\n====\n"
                 % (name, verif.tla_value(set(pages)), verif.tla_value(set(retries))))
    with open(os.path.join(sd, name + ".cfg"), "w") as fh:
        fh.write("SPECIFICATION Spec\nCONSTANTS MaxB = %d PageSizes <- MC_Pages MaxRetriesSet <- MC_Retries Mode = \"%s\"\n"
                 "INVARIANTS Complement ReportedOnce StopsAtMax NoLoss BoundedReruns NoRerunAfterKill\nCONSTRAINT EmitCase\nCHECK_DEADLOCK FALSE\n"
                 % (max_b, mode))
    out = os.path.join(v.wd, name + ".out")
    st = verif.run_tlc(sd, name, out, workers=4)
    v.add_tlc(st)
    tot, results = verif.replay(binary, v.wd, out, label=name, test="TestErrorHandling")
    v.add_replay(tot, results, label=name,
                 classify=lambda r, d: "C17-stale-last-error" if d["kind"] == "second-run-result" else None)
    os.remove(out)


def check_C17(tier, seed):
    v = Verdict("C17", tier, seed)
    v.wd = verif.workdir("C17")
    sd = verif.spec_copy(v.wd)
    binary = verif.build_harness(v.wd)
    thorough = tier == "thorough"
    # every failing subset x maxItems x page size for runs of up to MaxB entities
    eh_stage(v, sd, binary, "C17_log", "log", 7 if thorough else 5, (1, 2, 3, 10) if thorough else (1, 2, 10))
    # reRun: retries x number of executions the sink keeps failing
    eh_stage(v, sd, binary, "C17_rerun", "rerun", 3, (1,), retries=(1, 2, 3) if thorough else (1, 2))
    v.assumptions = ["the sink is a scripted wrapper around the job's DatasetSink that rejects any batch containing an entity "
                     "of the failing set (log cases) or every batch of the first k executions (reRun cases)",
                     "handler invocations are observed through the job runner's logger (zap observer)",
                     "reRun delay is 1 s (the smallest the configuration allows)"]
    return v.finish(rule="cases = every initial state TLC enumerates from spec/ErrorHandling.tla (entity count, failing subset, "
                    "maxItems, page size | retries, failing executions); each is run as a real job; delivered and reported "
                    "sequences, outcome, recorded error, token / number of executions compared. evaluations = compared "
                    "answers; distinct_nontrivial = cases")


# ----------------------------------------------------------------------------
# C16

TOKEN_KINDS = ["valid", "absent", "garbage", "expired", "wrongkey", "wrongissuer", "wrongaudience", "noaudience",
               "noissuer", "rs512", "hs256", "none"]
PARAMS = {":dataset": ["a", "b"], ":ds": ["a"], ":jobid": ["j1"], ":contentId": ["c1"], ":providerName": ["p1"], ":clientid": ["client1"]}
OPEN_PREFIXES = ("/health", "/security/token", "/api", "/static", "/favicon.ico", "/mimiro-favicon.png")
ACL_RESOURCES = ["/datasets/a", "/datasets/a*", "/datasets/*", "/*", "/jobs*", "/job/*", "/datasets/b/entities"]


def authz_universe(routes):
    reqs = []
    for r in routes:
        if r["path"] == "/" or r["method"] in ("echo_route_not_found",):
            continue   # service info: needs a token but no ACL (DESIGN 8.5 item 13: informational)
        paths = [r["path"]]
        for p, vals in PARAMS.items():
            nxt = []
            for x in paths:
                if p in x:
                    nxt += [x.replace(p, v) for v in vals]
                else:
                    nxt.append(x)
            paths = nxt
        import re as _re
        paths = [_re.sub(r":\w+", "x", x) for x in paths]
        for p in sorted(set(paths)):
            reqs.append({"method": r["method"], "path": p, "open": p.startswith(OPEN_PREFIXES)})
    for i, r in enumerate(reqs):
        r["id"] = i + 1
    entries = []
    for res in ACL_RESOURCES:
        for action in ("read", "write"):
            for deny in (False, True):
                entries.append({"id": len(entries) + 1, "res": res, "action": action, "deny": deny})
    def matches(res, path):
        return res == path or (res.endswith("*") and path.startswith(res[:-1]))
    pairs = sorted({(res, r["path"]) for res in ACL_RESOURCES for r in reqs if matches(res, r["path"])})
    return reqs, entries, pairs


def check_C16(tier, seed):
    v = Verdict("C16", tier, seed)
    v.wd = verif.workdir("C16")
    sd = verif.spec_copy(v.wd)
    binary = verif.build_harness(v.wd)
    thorough = tier == "thorough"
    routes_file = os.path.join(v.wd, "routes.json")
    p = verif.subprocess.run([binary, "-test.run", "^TestAuthzRoutes$"], cwd=v.wd, capture_output=True, text=True,
                             env=dict(os.environ, VERIF_ROUTES_OUT=routes_file, VERIF_DIR=os.path.join(v.wd, "routes_hub")))
    verif.shutil.rmtree(os.path.join(v.wd, "routes_hub"), ignore_errors=True)
    if p.returncode != 0 or not os.path.exists(routes_file):
        verif.sys.stderr.write((p.stdout + p.stderr)[-2000:])
        raise Inconclusive("could not list the router's routes")
    reqs, entries, pairs = authz_universe(json.load(open(routes_file)))
    uni = os.path.join(v.wd, "universe.json")
    json.dump({"requests": reqs, "entries": entries}, open(uni, "w"))
    name = "C16_decide"
    consts = {"Requests": verif.Raw("{" + ", ".join(verif.tla_value(r) for r in reqs) + "}"),
              "Entries": verif.Raw("{" + ", ".join(verif.tla_value(e) for e in entries) + "}"),
              "MatchPairs": verif.Raw("{" + ", ".join("<<%s, %s>>" % (verif.tla_value(a), verif.tla_value(b)) for a, b in pairs) + "}"),
              "TokenKinds": set(TOKEN_KINDS), "MaxAcl": 3 if thorough else 2}
    verif.gen_mc(sd, name, "Authz", consts, "Spec", invariants=["DenyWins", "ReadNeverMutates", "NoTokenNoService", "Monotone"],
                 view=None, constraint="EmitCase", header="TRUE")
    out = os.path.join(v.wd, name + ".out")
    st = verif.run_tlc(sd, name, out, timeout=1200)
    v.add_tlc(st)
    tot, results = verif.replay(binary, v.wd, out, label=name, test="TestAuthz", extra_env={"VERIF_UNIVERSE": uni})

    def classify(r, d):
        if d["kind"] != "authz":
            return None
        q = d["query"]
        if q["token"] in ("noaudience", "noissuer"):
            return "C16-missing-aud-iss-accepted"
        if q["token"] != "valid" or q["role"] != "client":
            return None
        needed_write = q["method"] not in ("GET", "HEAD", "OPTIONS")
        acl = q.get("acl") or []
        def m(res, path):
            return res == path or (res.endswith("*") and path.startswith(res[:-1]))
        applies = [e for e in acl if m(e["Resource"], q["path"])]
        if d["expected"] == "403" and str(d["actual"]).startswith("served"):
            if any(e["Deny"] for e in applies) and any(not e["Deny"] for e in applies):
                return "C16-allow-overrides-deny"
            if needed_write and q["method"] in ("PUT", "PATCH") and any((not e["Deny"]) and e["Action"] == "read" for e in applies):
                return "C16-put-patch-need-only-read"
        return None
    v.add_replay(tot, results, classify=classify, label=name)
    os.remove(out)
    # persistence of client registrations and ACLs across restarts
    name = "C16_persist"
    verif.gen_mc(sd, name, "AuthzPersist", {"Clients": {"c1", "c2"}, "MaxOps": 5 if thorough else 4}, "PSpec", view="pview", constraint="PEmit", header="TRUE")
    out = os.path.join(v.wd, name + ".out")
    st = verif.run_tlc(sd, name, out)
    v.add_tlc(st)
    tot, results = verif.replay(binary, v.wd, out, label=name, test="TestAuthzPersist")
    v.add_replay(tot, results, label=name,
                 classify=lambda r, d: "C16-acl-file-corrupted-by-delete" if d["kind"] in ("acls", "clients") and any(
                     s.get("a") in ("delacl", "unregister") for s in (d.get("query") or [])) and any(
                     s.get("a") == "restart" for s in (d.get("query") or [])) else None)
    os.remove(out)
    v.assumptions = ["routes are taken from the real router at check time; path parameters are instantiated with fixed names",
                     "security mode 'local' (node key RS256); OPA is not configured, the ACL check decides",
                     "decision classes: 401 (also the middleware's 400 for a missing token), 403, served (anything else)",
                     "ACL sets of up to 2 entries (quick) / 3 entries (thorough) out of 28"]
    return v.finish(rule="cases = every initial state TLC enumerates from spec/Authz.tla (request x token kind, request x ACL "
                    "set of <= 2 entries) and every bounded client/ACL management sequence with restarts; each is sent through "
                    "the real router + JWT middleware + authorizer, or executed on the real ServiceCore. evaluations = "
                    "compared decisions; distinct_nontrivial = distinct cases")


# ----------------------------------------------------------------------------
# C15

def check_C15(tier, seed):
    v = Verdict("C15", tier, seed)
    v.wd = verif.workdir("C15")
    sd = verif.spec_copy(v.wd)
    binary = verif.build_harness(v.wd)
    name = "C15_docs"
    with open(os.path.join(sd, name + ".tla"), "w") as fh:
        fh.write("---- MODULE %s ----\nEXTENDS Parser\n====\n" % name)
    with open(os.path.join(sd, name + ".cfg"), "w") as fh:
        fh.write("SPECIFICATION Spec\nCONSTANT Deep = %s\nINVARIANT OneBadSlotInvalidates\nCONSTRAINT EmitDoc\nCHECK_DEADLOCK FALSE\n"
                 % ("TRUE" if tier == "thorough" else "FALSE"))
    out = os.path.join(v.wd, name + ".out")
    st = verif.run_tlc(sd, name, out, workers=4)
    v.add_tlc(st)
    tot, results = verif.replay(binary, v.wd, out, label=name, test="TestParser",
                                extra_env={"VERIF_ALL_CUTS": "1" if tier == "thorough" else "0",
                                           "VERIF_MUTATE": "1" if tier == "thorough" else "0"})

    def classify(r, d):
        return None
    v.add_replay(tot, results, classify=classify, label=name)
    os.remove(out)
    v.assumptions = ["documents are built from slot shapes (valid forms and single-slot type mutations) plus element-level and "
                     "byte-level truncations; thorough tier: single-byte grammar mutations (delete / replace / insert JSON punctuation at "
                     "every position) checked for 'no panic' only; arbitrary byte strings beyond that are not generated",
                     "all documents are smaller than the handler's flush batch (10), so 'nothing stored' is exact",
                     "encoding/json's tokenizer is trusted"]
    return v.finish(rule="documents = every initial state TLC enumerates from spec/Parser.tla (context shape x entity slot "
                    "shapes x truncation); each is rendered to bytes and (1) parsed by the real EntityStreamParser under "
                    "recover, (2) POSTed through the real handler into a fresh dataset, (3) read back through GET entities / "
                    "changes and re-parsed, (4) cut at ~40 byte positions (thorough: every byte position; two-slot variants, "
                    "three-element documents). evaluations = compared answers; "
                    "distinct_nontrivial = distinct documents")


# ----------------------------------------------------------------------------
# C11

def check_C11(tier, seed):
    v = Verdict("C11", tier, seed)
    v.wd = verif.workdir("C11")
    sd = verif.spec_copy(v.wd)
    binary = verif.build_harness(v.wd)
    thorough = tier == "thorough"
    # (0) the slot rules themselves (safety + every run ends, under fairness)
    name = "C11_raffle"
    with open(os.path.join(sd, name + ".tla"), "w") as fh:
        fh.write("---- MODULE %s ----\nEXTENDS Raffle\n====\n" % name)
    with open(os.path.join(sd, name + ".cfg"), "w") as fh:
        fh.write('SPECIFICATION Spec\nCONSTANTS Jobs = {"j1","j2","j3"} PoolI = 2 PoolF = 1 MaxReq = %d\n'
                 'INVARIANTS NoOverlap PoolBound Conservation ResultPerRun\nPROPERTY EveryRunEnds\nCHECK_DEADLOCK FALSE\n'
                 % (7 if thorough else 5))
    st = verif.run_tlc(sd, name, os.path.join(v.wd, name + ".out"), timeout=900)
    v.add_tlc(st)
    # (a) the configuration box
    name = "C11_configs"
    srcs = ["DatasetSource", "DatasetSourceLatest", "UnionDatasetSource", "MultiSource", "SampleSource", "SlowSource",
            "HttpDatasetSource", "Bogus"]
    trs = ["none", "js1", "js3", "http", "Bogus"]
    snks = ["DatasetSink", "DevNullSink", "ConsoleSink", "HttpDatasetSink", "Bogus"]
    trigs = ["cron", "cron_bad", "onchange", "onchange_nods", "bogus"]
    jts = ["incremental", "fullsync", "bogus"]
    hds = ["none", "log", "logmax", "rerun", "log+rerun", "requeue", "duplicate", "bogus"]
    with open(os.path.join(sd, name + ".tla"), "w") as fh:
        fh.write("---- MODULE %s ----\nEXTENDS JobConfigs\n====\n" % name)
    with open(os.path.join(sd, name + ".cfg"), "w") as fh:
        fh.write("SPECIFICATION Spec\nCONSTANTS Sources = %s Transforms = %s Sinks = %s Triggers = %s JobTypes = %s Handlers = %s\n"
                 "CONSTRAINT EmitCfg\nCHECK_DEADLOCK FALSE\n" % tuple(
                     "{" + ", ".join('"%s"' % x for x in l) + "}" for l in (srcs, trs, snks, trigs, jts, hds)))
    out = os.path.join(v.wd, name + ".out")
    st = verif.run_tlc(sd, name, out, workers=4)
    v.add_tlc(st)
    tot, results = verif.replay(binary, v.wd, out, label=name, test="TestJobConfigs", stride_extra=1,
                                seed=seed, timeout=2400, extra_env={"VERIF_HTTP_FAIL": "1"} if thorough else None)

    classify = None
    v.add_replay(tot, results, classify=classify, label=name)
    os.remove(out)
    # (b) storms of concurrent run requests on overlapping job ids, traces validated by TLC
    storms = 24 if thorough else 6
    import concurrent.futures as cf

    def storm(k):
        tr = os.path.join(v.wd, "storm_%d.ndjson" % k)
        d = os.path.join(v.wd, "storm_st_%d" % k)
        env = dict(os.environ, VERIF_TRACE=tr, VERIF_DIR=d, VERIF_STORM_MS=str(2500 if thorough else 1500),
                   VERIF_SEED=str(seed * 100 + k), GOMAXPROCS=["16", "4", "2"][k % 3])
        try:
            p = verif.subprocess.run([binary, "-test.run", "^TestJobStorm$", "-test.timeout", "0"], cwd=v.wd, env=env,
                                     capture_output=True, text=True, timeout=120)
            rc, txt = p.returncode, p.stdout + p.stderr
        except verif.subprocess.TimeoutExpired as e:
            rc, txt = 98, "storm driver did not finish within 120 s"
        verif.shutil.rmtree(d, ignore_errors=True)
        return k, rc, txt, tr
    with cf.ThreadPoolExecutor(max_workers=3) as ex:
        res = list(ex.map(storm, range(storms)))
    for k, rc, txt, tr in res:
        if rc != 0:
            m = verif.re.search(r"^(fatal error: .*|panic: .*)$", txt, verif.re.M)
            if rc == 98 or (m and "mimiro-io/datahub/internal/" in txt):
                path = os.path.join(v.wd, "replay-C11_storm-%d.json" % k)
                json.dump({"property": "C11", "stage": "C11_storm", "seed": seed * 100 + k,
                           "what": m.group(1) if m else "hang", "log_tail": txt[-5000:]}, open(path, "w"), indent=1)
                v.violations.append(("C11_storm: hub process crashed or hung: %s" % (m.group(1) if m else "timeout"), path))
                continue
            verif.sys.stderr.write(txt[-2000:])
            raise Inconclusive("storm driver failed (exit %d)" % rc)
        sdk = os.path.join(v.wd, "spec_tv_%d" % k)
        verif.shutil.copytree(sd, sdk)
        # constants of the trace module
        ok, nlines, line, tst = validate_raffle(sdk, tr)
        verif.shutil.rmtree(sdk, ignore_errors=True)
        v.cov["states"] += tst["distinct"]
        v.cov["transitions"] += tst["generated"]
        v.cov["traces_validated_against_impl"] += 1
        v.cov["evaluations"] += nlines
        v.cov["distinct_nontrivial"] += 1
        if not ok:
            trace_violation(v, "C11_storm_%d" % k, tr, min(max(line, 1), nlines),
                            "two runs of one job id overlap, a pool is exceeded, or at the end a slot is occupied / a run has no stored result")
    v.assumptions = ["accepted configurations are run the way the scheduler's triggers run them (the job object AddJob "
                     "builds, error handlers attached), synchronously, with a healthy and with a failing sink; HTTP sources, "
                     "transforms and sinks talk to a loopback stub",
                     "runs are observed from inside the jobs' sources (probe around ReadEntities with a few ms delay): "
                     "overlapping source reads of one job id imply overlapping runs (sound, not complete)",
                     "failing HTTP sinks (seconds of client retries) only in the thorough tier"]
    return v.finish(rule="spec/Raffle.tla model-checked (NoOverlap, PoolBound, Conservation, ResultPerRun, EveryRunEnds under "
                    "fairness); spec/JobConfigs.tla enumerates the configuration box, each accepted configuration is run on the "
                    "real scheduler; seeded storms of manual runs / events / kills / writes in child processes, traces "
                    "validated by TLC against spec/TraceRaffle.tla. evaluations = checked outcomes + trace lines; "
                    "distinct_nontrivial = accepted configurations + storms")


def validate_raffle(sdk, trace):
    name = "TV_TraceRaffle"
    with open(os.path.join(sdk, name + ".tla"), "w") as fh:
        fh.write('---- MODULE %s ----\nEXTENDS TraceRaffle\nMC_TraceFile == "%s"\n'
                 'MC_Accepted == IF Accepted THEN TRUE ELSE PrintT(<<"REJECTED_AT", TLCGet(1) + 1>>) /\\ FALSE\n====\n' % (name, trace))
    with open(os.path.join(sdk, name + ".cfg"), "w") as fh:
        fh.write("SPECIFICATION Spec\nCONSTANTS TraceFile <- MC_TraceFile PoolI = 2 PoolF = 1\nPOSTCONDITION MC_Accepted\nCHECK_DEADLOCK FALSE\n")
    out = os.path.join(sdk, name + ".out")
    cmd = ["java", "-Xmx4g", "-Xss512m", "-XX:+UseParallelGC", "-cp", "/opt/veriftools/tla/tla2tools.jar:" + verif.community_cp(),
           "tlc2.TLC", "-workers", "1", "-metadir", os.path.join(sdk, "meta"), "-config", name + ".cfg", name + ".tla"]
    import time as _t
    t0 = _t.time()
    with open(out, "w") as fh:
        verif.subprocess.run(cmd, cwd=sdk, stdout=fh, stderr=verif.subprocess.STDOUT, timeout=600)
    txt = open(out, errors="replace").read()
    nlines = sum(1 for _ in open(trace))
    st = {"generated": 0, "distinct": 0}
    mm = verif.re.search(r"(\d[\d,]*) states generated, (\d[\d,]*) distinct states found", txt)
    if mm:
        st = {"generated": int(mm.group(1).replace(",", "")), "distinct": int(mm.group(2).replace(",", ""))}
    m = verif.re.search(r'<<"REJECTED_AT", (\d+)>>', txt)
    if m:
        log("[trace] TraceRaffle: REJECTED at line %s of %d" % (m.group(1), nlines))
        return False, nlines, int(m.group(1)), st
    if "Model checking completed. No error has been found." in txt:
        log("[trace] TraceRaffle: accepted %d lines (%.1fs)" % (nlines, _t.time() - t0))
        return True, nlines, 0, st
    verif.sys.stderr.write(txt[-2000:])
    raise Inconclusive("TraceRaffle validation failed to run")


# ----------------------------------------------------------------------------
# C18

def ms_all_deps(explicit, main):
    """explicit dependencies plus the ones implied by longer join paths (as the product derives them)"""
    out, seen = [], set()
    def add(d):
        key = (d["ds"], tuple((j["ds"], j["pred"], j["inv"]) for j in d["joins"]))
        if key not in seen and d["joins"]:
            seen.add(key)
            out.append(d)
    for d in explicit:
        add(d)
    for d in explicit:
        for i, j in enumerate(d["joins"]):
            if j["ds"] != main:
                add({"ds": j["ds"], "joins": d["joins"][i + 1:]})
    return out


def ms_stage(v, sd, binary, name, *, main, deps, ds, ent, contents, allowed, preds, max_steps, sample=False, seed=None,
             fan=4, target=None, max_batch=1):
    alld = ms_all_deps(deps, main)
    def tl(d):
        return {"ds": d["ds"], "joins": [dict(j) for j in d["joins"]]}
    consts = {"DsSeq": list(ds), "Ent": set(ent), "MaxBatch": max_batch, "MaxSteps": max_steps,
              "Acts": {"store", "catchup"}, "ObsKinds": set(), "Limits": {0}, "Fan": fan, "Precreated": True,
              "Writable": set(ds), "TrackPre": False, "Readers": set(), "MsMain": main,
              "MsExplicit": [tl(d) for d in deps], "MsDeps": [tl(d) for d in alld],
              "Allowed": verif.Raw("{" + ", ".join("<<%s, %s, %d>>" % (verif.tla_value(a), verif.tla_value(b), c) for a, b, c in allowed) + "}")}
    verif.gen_mc(sd, name, "MultiSource", consts, "MSpec" + ("Sample" if sample else ""), invariants=["TypeOK"],
                 props=() if sample else ("MsProps",), view=None if sample else "mview", contents=contents, preds=preds,
                 constraint="Emit", header="MEmitHeader")
    out = os.path.join(v.wd, name + ".out")
    st = verif.run_tlc(sd, name, out, seed=seed if sample else None, workers=1 if sample else None)
    v.add_tlc(st)
    stride_extra = 1
    if target and st["emitted"] > target:
        stride_extra = -(-st["emitted"] // target)
        v.cov["stages"].append({"name": name + ":thinned", "emitted": st["emitted"], "replayed_every": stride_extra})
    tot, results = verif.replay(binary, v.wd, out, tables="plain", adapters="go", label=name, stride_extra=stride_extra,
                                per_world=150, rotate=True, seed=v.seed)
    v.add_replay(tot, results, label=name)
    os.remove(out)


def check_C18(tier, seed):
    v = Verdict("C18", tier, seed)
    v.wd = verif.workdir("C18")
    sd = verif.spec_copy(v.wd)
    binary = verif.build_harness(v.wd)
    thorough = tier == "thorough"
    # id pools: main m1 m2, link l1 l2, dependency d1 d2
    ents = ["m1", "m2", "l1", "l2", "d1", "d2"]
    def J(ds, pred, inv):
        return {"ds": ds, "pred": pred, "inv": inv}
    shapes = {
        # main entities point at the dependency entity (p): one inverse hop
        "inv1": dict(deps=[{"ds": "d", "joins": [J("m", "p", True)]}],
                     contents=[content(1), content(2), content(1, p=(1, ["d1"])), content(1, p=(1, ["d2"])), content(0, d=True)],
                     writes={"m": (["m1", "m2"], [1, 3, 4, 5]), "d": (["d1", "d2"], [1, 2, 5])}),
        # the dependency entity points at main (p): one forward hop; removed links must still be followed
        "fwd1": dict(deps=[{"ds": "d", "joins": [J("m", "p", False)]}],
                     contents=[content(1), content(2), content(1, p=(1, ["m1"])), content(1, p=(1, ["m2"])), content(0, d=True)],
                     writes={"m": (["m1", "m2"], [1, 2]), "d": (["d1", "d2"], [1, 3, 4, 5])}),
        # two hops through a link dataset: link -> dep (p, inverse), main -> link (q, inverse)
        "inv2": dict(deps=[{"ds": "d", "joins": [J("l", "p", True), J("m", "q", True)]}],
                     contents=[content(1), content(2), content(1, p=(1, ["d1"])), content(1, q=(1, ["l1"])),
                               content(1, q=(1, ["l2"])), content(0, d=True)],
                     writes={"m": (["m1", "m2"], [1, 4, 5]), "l": (["l1", "l2"], [1, 3, 6]), "d": (["d1"], [1, 2, 6])}),
        # mixed: dep -> link forward (p), main -> link inverse (q)
        "mixed2": dict(deps=[{"ds": "d", "joins": [J("l", "p", False), J("m", "q", True)]}],
                       contents=[content(1), content(2), content(1, p=(1, ["l1"])), content(1, p=(1, ["l2"])),
                                 content(1, q=(1, ["l1"])), content(0, d=True)],
                       writes={"m": (["m1", "m2"], [1, 5]), "l": (["l1", "l2"], [1, 2]), "d": (["d1"], [3, 4, 6])}),
    }
    names = list(shapes)
    for nm in shapes:
        sh = shapes[nm]
        allowed = [(d, e, c) for d, (es, cs) in sh["writes"].items() for e in es for c in cs]
        dss = ["m", "l", "d"] if any(j["ds"] == "l" for d in sh["deps"] for j in d["joins"]) else ["m", "d"]
        if nm in names:
            ms_stage(v, sd, binary, "C18_" + nm, main="m", deps=sh["deps"], ds=dss, ent=ents, contents=sh["contents"],
                     allowed=allowed, preds=("p", "q"), max_steps=5 if thorough else 4)
        ms_stage(v, sd, binary, "C18_" + nm + "_deep", main="m", deps=sh["deps"], ds=dss, ent=ents, contents=sh["contents"],
                 allowed=allowed, preds=("p", "q"), max_steps=8 if thorough else 7, sample=True, seed=seed,
                 fan=2, target=8000 if thorough else 1200, max_batch=2)
    # long exhaustive histories over a narrow write alphabet: two catch-ups with several dependency changes between
    # them (a query object reused across the changes of one page, a token that is > 0 at the second catch-up)
    narrow = {
        "fwd1": [("m", "m1", 1), ("m", "m2", 1), ("d", "d1", 1), ("d", "d1", 3), ("d", "d2", 4)],
        "inv1": [("m", "m1", 3), ("m", "m2", 4), ("m", "m2", 3), ("d", "d1", 1), ("d", "d2", 2)],
        "mixed2": [("m", "m1", 5), ("l", "l1", 1), ("d", "d1", 1), ("d", "d1", 2), ("d", "d2", 3)],
        "inv2": [("m", "m1", 4), ("l", "l1", 3), ("l", "l2", 3), ("d", "d1", 1), ("d", "d1", 2)],
    }
    for nm, allowed in narrow.items():
        sh = shapes[nm]
        if nm in ("mixed2", "inv2"):
            sh = dict(sh)
            sh["deps"] = [dict(sh["deps"][0])]
        dss = ["m", "l", "d"] if any(j["ds"] == "l" for d in sh["deps"] for j in d["joins"]) else ["m", "d"]
        if not thorough and nm not in ("fwd1", "mixed2"):
            continue
        ms_stage(v, sd, binary, "C18_" + nm + "_long", main="m", deps=sh["deps"], ds=dss, ent=ents, contents=sh["contents"],
                 allowed=allowed, preds=("p", "q"), max_steps=7 if thorough else 6, target=60000)
    v.assumptions = ["join shapes: one inverse hop, one forward hop, two inverse hops through a link dataset, forward+inverse; "
                     "dependencies declared in JSON (track_queries declarations are not exercised)",
                     "entity id pools per dataset role (main / link / dependency); batch size above the feed length "
                     "(one page per run); the sink is DevNullSink behind a recording wrapper",
                     "emitted may be a superset of the required set (the reference is a lower bound) but only ids of main"]
    return v.finish(rule=RULE_REPLAY)
