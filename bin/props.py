"""Per-property check definitions (see DESIGN.md section 5)."""
import os, json
import verif
from verif import content, Verdict, log, Inconclusive

ALL_TABLES = ["plain", "eqlen", "shapes", "nested", "native"]

CORE_INV = ["TypeOK", "LatestIsLast", "NoAdjacentDupUnlessInjected", "PosIncreasing", "FeedPagingExact",
            "TokenAtEndStable", "ReaderPrefix", "DeletedInvisible", "IncNeverReused", "CatalogueAgrees"]
CORE_PROPS = ["PastImmutable", "RecreateEmpty", "MaintInvisible", "OthersUnaffected"]


def tables_for(tier, seed, always=("plain", "eqlen")):
    if tier == "thorough":
        return ",".join(ALL_TABLES)
    rest = [t for t in ALL_TABLES if t not in always]
    return ",".join(list(always) + [rest[seed % len(rest)]])


def datahub_stage(v, sd, binary, name, *, ds, ent, contents, preds=("p",), max_batch=1, max_steps=2, acts=("store",),
                  kinds=("ent", "chg", "look"), limits=(0, 1, 2), readers=(), spec="SpecCreated", tables="plain",
                  adapters="go", invariants=CORE_INV, props=CORE_PROPS, classify=None, view="view",
                  sample=False, seed=None, fan=4, stride_extra=1, tlc_timeout=1500, heap="8g", inv_ref=True,
                  per_world=400, rotate=False, target=None):
    """One TLC run of spec/Datahub.tla (exhaustive or simulation) + replay of everything it emitted."""
    consts = {"DsSeq": list(ds), "Ent": set(ent), "MaxBatch": max_batch, "MaxSteps": max_steps, "Acts": set(acts),
              "ObsKinds": set(kinds), "Limits": set(limits), "Fan": fan, "Precreated": spec.startswith("SpecCreated"),
              "Readers": set() if not readers else verif.Raw("{" + ", ".join(verif.tla_value(r) for r in readers) + "}")}
    constraint = "Emit"
    if sample:
        # deep sampled histories: BFS over NextSample (random Fan successors per state), history not hidden
        view, spec = None, spec + "Sample"
        invariants, props = ["TypeOK"], ()
    verif.gen_mc(sd, name, "Datahub", consts, spec, invariants=invariants, props=props,
                 view=view, contents=contents, preds=preds, constraint=constraint)
    out = os.path.join(v.wd, name + ".out")
    st = verif.run_tlc(sd, name, out, timeout=tlc_timeout, heap=heap, seed=seed if sample else None,
                       workers=4 if sample else None)
    v.add_tlc(st)
    if target and st["emitted"] > target:
        # bound the replay cost of sampled stages: replay every k-th emitted behaviour (recorded in the evidence)
        stride_extra = -(-st["emitted"] // target)
        v.cov["stages"].append({"name": name + ":thinned", "emitted": st["emitted"], "replayed_every": stride_extra})
    tot, results = verif.replay(binary, v.wd, out, tables=tables, adapters=adapters, label=name,
                                stride_extra=stride_extra, per_world=per_world, rotate=rotate, seed=v.seed)
    v.add_replay(tot, results, classify=classify, label=name)
    os.remove(out)
    return st, tot


RULE_REPLAY = ("behaviours = action histories emitted by TLC from spec/Datahub.tla (one per generated state: the "
               "first-found history of every distinct abstract state extended by every enabled action instance, i.e. "
               "transition coverage of the bounded state graph; plus simulated deeper histories); each is executed on "
               "the real Store/DsManager and every read-API answer is compared with the answer the specification "
               "requires. evaluations = compared answers; distinct_nontrivial = distinct histories (sha1 of the step "
               "list) containing at least one state-changing action")


# ----------------------------------------------------------------------------
# C01

def c01_contents():
    # p tokens: 1,2 plain; 3/4 engineered equal-length partners of deleted 0 / deleted 1
    return [content(1), content(2), content(0, d=True), content(3), content(1, d=True), content(4)]


def check_C01(tier, seed):
    v = Verdict("C01", tier, seed)
    v.wd = verif.workdir("C01")
    sd = verif.spec_copy(v.wd)
    binary = verif.build_harness(v.wd)
    thorough = tier == "thorough"
    tabs = tables_for(tier, seed)
    # (a) one dataset, repeated ids inside a batch, delete/un-delete, equal-length pairs
    datahub_stage(v, sd, binary, "C01_batch", ds=["a"], ent=["e1", "e2"], contents=c01_contents(), max_batch=2,
                  max_steps=2, tables=tabs, kinds=("ent", "look"))
    if thorough:
        datahub_stage(v, sd, binary, "C01_batch3", ds=["a"], ent=["e1", "e2"], contents=c01_contents()[:4],
                      max_batch=2, max_steps=3, tables=tabs, kinds=("ent", "look"), rotate=True)
    # (b) two datasets sharing ids, transactions, unscoped merge
    c4 = [content(1), content(2), content(0, d=True), content(3)]
    datahub_stage(v, sd, binary, "C01_multi", ds=["a", "b"], ent=["e1", "e2"], contents=c4, max_batch=1,
                  max_steps=2, acts=("store", "txn"), tables=tabs, kinds=("ent", "look"))
    datahub_stage(v, sd, binary, "C01_multi3", ds=["a", "b"], ent=["e1", "e2"], contents=c4, max_batch=1,
                  max_steps=3, acts=("store", "txn") if thorough else ("store",), tables=tabs, kinds=("ent", "look"),
                  rotate=True)
    # (c) deeper random histories
    datahub_stage(v, sd, binary, "C01_sim", ds=["a", "b"], ent=["e1", "e2", "e3"], contents=c01_contents(),
                  max_batch=2, max_steps=9 if thorough else 7, acts=("store", "txn"), tables=tabs, kinds=("ent", "look"),
                  sample=True, seed=seed, rotate=True, fan=6 if thorough else 5, target=60000 if thorough else 6000)
    v.assumptions = ["entity contents are those of the concretisation tables (harness/.../concretize.go)",
                     "ids <= 3, datasets <= 2, bounded history depth (small-scope hypothesis)",
                     "badger, encoding/json are trusted"]
    return v.finish(rule=RULE_REPLAY)


# ----------------------------------------------------------------------------
# C02

def check_C02(tier, seed):
    v = Verdict("C02", tier, seed)
    v.wd = verif.workdir("C02")
    sd = verif.spec_copy(v.wd)
    binary = verif.build_harness(v.wd)
    thorough = tier == "thorough"
    tabs = tables_for(tier, seed)
    c4 = [content(1), content(2), content(0, d=True), content(1, d=True)]
    # (a) one dataset, in-batch repeats, every since / limit / latestOnly, token walks
    datahub_stage(v, sd, binary, "C02_batch", ds=["a"], ent=["e1", "e2"], contents=c4, max_batch=2,
                  max_steps=3 if thorough else 2, tables=tabs, kinds=("chg", "ent"), limits=(0, 1, 2, 3),
                  rotate=thorough)
    # (b) token-carrying readers interleaved with writers
    readers = [{"id": 1, "ds": "a", "lo": False, "lim": 1}, {"id": 2, "ds": "a", "lo": True, "lim": 2}]
    datahub_stage(v, sd, binary, "C02_readers", ds=["a"], ent=["e1", "e2"], contents=c4[:3], max_batch=1,
                  max_steps=6 if thorough else 5, acts=("store", "read"), readers=readers, tables=tabs,
                  kinds=("chg",), limits=(0, 1), rotate=True)
    # (c) two datasets + transactions (feeds are per dataset)
    datahub_stage(v, sd, binary, "C02_multi", ds=["a", "b"], ent=["e1", "e2"], contents=c4[:3], max_batch=1,
                  max_steps=3 if thorough else 2, acts=("store", "txn"), tables=tabs, kinds=("chg",), rotate=True)
    # (d) deeper sampled histories with readers
    datahub_stage(v, sd, binary, "C02_deep", ds=["a", "b"], ent=["e1", "e2", "e3"], contents=c4, max_batch=2,
                  max_steps=9 if thorough else 7, acts=("store", "txn", "read"), readers=readers, tables=tabs,
                  kinds=("chg",), sample=True, seed=seed, rotate=True, fan=6 if thorough else 5, target=60000 if thorough else 6000)
    v.assumptions = ["change positions are compared numerically (tokens are the documented sequence numbers)",
                     "contents from the concretisation tables; ids <= 3; bounded depth"]
    return v.finish(rule=RULE_REPLAY)


# ----------------------------------------------------------------------------
# C03 / C06

def rel_contents():
    return [content(1, p=(1, ["e2"])),                      # 1 single ref
            content(1, p=(2, ["e2", "e3"])),                # 2 array ref
            content(1, p=(1, ["e2"]), q=(1, ["e2"])),       # 3 two predicates between the same pair
            content(2),                                     # 4 no refs
            content(0, d=True),                             # 5 deleted, bare
            content(1, d=True, p=(1, ["e2"])),              # 6 deleted, keeps its refs
            content(1, q=(1, ["e3"]), p=(2, ["e1"]))]       # 7 other predicate, self/array


def ref_combos(steps, contents):
    """(s, o) -> set of (pred, dataset) under which s referenced o at some point of the history."""
    out = {}
    def add(ds, b):
        for e, c in b:
            for q, (k, ts) in contents[c - 1]["refs"].items():
                for o in ts:
                    out.setdefault((e, o), set()).add((q, ds))
    for st in steps:
        if st["a"] == "store":
            add(st["ds"], st["b"])
        elif st["a"] == "txn":
            for ds, b in st["m"]:
                add(ds, b)
    return out


def classify_c03(contents):
    def classify(r, d):
        q = d.get("query") or {}
        if d["kind"] not in ("related", "restored:related") or not isinstance(q, dict) or not q.get("inverse"):
            return None
        exp, act = set(d["expected"] or []), set(d["actual"] or [])
        if not isinstance(d["expected"], list):
            return None
        combos = ref_combos(r["steps"], contents)
        for pair in exp ^ act:
            s = pair.split(">")[1]
            if len(combos.get((s, q["start"]), ())) >= 2:
                return "C03-incoming-multi-relation"
        # duplicates only (same set): a referencing entity listed twice
        if exp == act:
            for pair in act:
                s = pair.split(">")[1]
                if len(combos.get((s, q["start"]), ())) >= 2:
                    return "C03-incoming-multi-relation"
        return None
    return classify


def check_C03(tier, seed):
    v = Verdict("C03", tier, seed)
    v.wd = verif.workdir("C03")
    sd = verif.spec_copy(v.wd)
    binary = verif.build_harness(v.wd)
    thorough = tier == "thorough"
    tabs = "plain,native" if thorough else "plain"
    rc = rel_contents()
    rq = [rc[1], rc[2], rc[4], rc[6]]
    kinds = ("rel", "look")
    cl = classify_c03
    # (a) one dataset, delete / un-delete and re-pointing inside one batch
    c = rc if thorough else rq
    datahub_stage(v, sd, binary, "C03_batch", ds=["a"], ent=["e1", "e2", "e3"], preds=("p", "q"), contents=c,
                  max_batch=2, max_steps=2, tables=tabs, kinds=kinds, limits=(0, 1, 2), rotate=True,
                  classify=cl(c), invariants=CORE_INV + ["InIsTransposeOfOut"])
    # (b) two datasets with the same entity in different delete states, all scopes
    datahub_stage(v, sd, binary, "C03_multi", ds=["a", "b"], ent=["e1", "e2", "e3"], preds=("p", "q"),
                  contents=c, max_batch=1, max_steps=3, acts=("store",),
                  tables=tabs, kinds=kinds, limits=(0, 1, 2), rotate=True, classify=cl(c))
    if thorough:
        datahub_stage(v, sd, binary, "C03_txn", ds=["a", "b"], ent=["e1", "e2", "e3"], preds=("p", "q"),
                      contents=rq, max_batch=1, max_steps=2, acts=("store", "txn"),
                      tables=tabs, kinds=kinds, limits=(0, 1, 2), rotate=True, classify=cl(rq))
    # (c) deep sampled histories
    datahub_stage(v, sd, binary, "C03_deep", ds=["a", "b"], ent=["e1", "e2", "e3"], preds=("p", "q"), contents=rc,
                  max_batch=2, max_steps=8 if thorough else 6, acts=("store", "txn"), tables=tabs, kinds=kinds,
                  limits=(0, 1, 2, 3), sample=True, seed=seed, rotate=True, fan=6 if thorough else 5,
                  classify=cl(rc), target=40000 if thorough else 3000)
    v.assumptions = ["scopes are subsets of the existing datasets (a scope naming only unknown datasets is reported separately)",
                     "ids <= 3, predicates <= 2, datasets <= 2, bounded depth"]
    return v.finish(rule=RULE_REPLAY)


# ----------------------------------------------------------------------------
# C06

def rel_contents2():
    """relationship contents over the two-entity universe {e1, e2}"""
    return [content(1, p=(2, ["e2", "e1"])),
            content(1, p=(1, ["e2"]), q=(1, ["e2"])),
            content(0, d=True),
            content(2, q=(1, ["e1"]), p=(2, ["e1"]))]


def check_C06(tier, seed):
    v = Verdict("C06", tier, seed)
    v.wd = verif.workdir("C06")
    sd = verif.spec_copy(v.wd)
    binary = verif.build_harness(v.wd)
    thorough = tier == "thorough"
    tabs = "plain,eqlen" if thorough else "plain"
    rc = rel_contents()
    rq = [rc[1], rc[2], rc[4], rc[6]]
    kinds = ("rel", "look", "past")
    cl = classify_c03
    c = rc if thorough else rq
    # (a) one dataset: versions sharing one commit instant (in-batch), instants between commits (tick)
    c2 = rel_contents2()
    datahub_stage(v, sd, binary, "C06_batch", ds=["a"], ent=["e1", "e2"], preds=("p", "q"), contents=c2,
                  max_batch=2, max_steps=3 if thorough else 2, acts=("store", "tick"), tables=tabs, kinds=kinds,
                  limits=(0, 1), rotate=True, classify=cl(c2), invariants=CORE_INV + ["InIsTransposeOfOut"])
    # (b) two datasets, all scopes, every past instant
    datahub_stage(v, sd, binary, "C06_multi", ds=["a", "b"], ent=["e1", "e2", "e3"], preds=("p", "q"),
                  contents=rq, max_batch=1, max_steps=3, acts=("store", "tick", "txn") if thorough else ("store", "tick"),
                  tables=tabs, kinds=kinds, limits=(0, 1), rotate=True, classify=cl(rq))
    # (c) deep sampled histories
    datahub_stage(v, sd, binary, "C06_deep", ds=["a", "b"], ent=["e1", "e2", "e3"], preds=("p", "q"), contents=rc,
                  max_batch=2, max_steps=8 if thorough else 6, acts=("store", "txn", "tick"), tables=tabs,
                  kinds=kinds, limits=(0, 2), sample=True, seed=seed, rotate=True, fan=6 if thorough else 5,
                  classify=cl(rc), target=40000 if thorough else 3000)
    v.assumptions = ["each specification instant t is asked at three real instants: just after action t completed, "
                     "exactly at the commit time of action t, and one nanosecond before the commit of action t+1",
                     "relationship answers at past instants are compared as (start, predicate, related id) sets",
                     "maintenance operations (dataset delete, compaction) are excluded here (C07, C12)"]
    return v.finish(rule=RULE_REPLAY)


# ----------------------------------------------------------------------------
# C07 / C19 / C14 (core part)

def mgmt_contents():
    return [content(1, p=(1, ["e2"])), content(0, d=True), content(2, p=(2, ["e1", "e2"]))]


def check_C07(tier, seed):
    v = Verdict("C07", tier, seed)
    v.wd = verif.workdir("C07")
    sd = verif.spec_copy(v.wd)
    binary = verif.build_harness(v.wd)
    thorough = tier == "thorough"
    mc = mgmt_contents()
    kinds = ("ent", "chg", "look", "rel")
    cl = classify_c03
    acts = ("store", "create", "delete", "rename", "gc", "restart")
    # exhaustive: both datasets exist initially; delete / re-create / rename / gc / restart at every position
    datahub_stage(v, sd, binary, "C07_mgmt", spec="SpecCreated", ds=["a", "b"], ent=["e1", "e2"], contents=mc[:2],
                  max_batch=1, max_steps=5 if thorough else 4, acts=acts, tables="plain", kinds=kinds,
                  limits=(0, 1), classify=cl(mc[:2]), rotate=True, per_world=150)
    # exhaustive from the empty hub (creation order, first use of names)
    mc1 = [content(1, p=(1, ["e1"])), content(0, d=True)]
    datahub_stage(v, sd, binary, "C07_fromempty", spec="Spec", ds=["a", "b"], ent=["e1"], contents=mc1,
                  max_batch=1, max_steps=7 if thorough else 6, acts=("store", "create", "delete", "rename", "gc"),
                  tables="plain", kinds=kinds, limits=(0, 1), classify=cl(mc1), rotate=True, per_world=150)
    datahub_stage(v, sd, binary, "C07_deep", spec="Spec", ds=["a", "b", "c"], ent=["e1", "e2"], contents=mc,
                  max_batch=2, max_steps=10 if thorough else 8, acts=acts + ("txn",), tables="plain,eqlen",
                  kinds=kinds, limits=(0, 1), sample=True, seed=seed, fan=5 if thorough else 4, classify=cl(mc),
                  rotate=True, per_world=100, target=30000 if thorough else 3000)
    v.assumptions = ["queries whose scope names a dataset that does not exist are not asked (reported separately, DESIGN 8.5)",
                     "crash points inside create/rename/delete are covered by the crash stage of C04"]
    return v.finish(rule=RULE_REPLAY)


def check_C19(tier, seed):
    v = Verdict("C19", tier, seed)
    v.wd = verif.workdir("C19")
    sd = verif.spec_copy(v.wd)
    binary = verif.build_harness(v.wd)
    thorough = tier == "thorough"
    c = [content(1), content(0, d=True)]
    kinds = ("cat", "ent")
    acts = ("store", "txn", "create", "delete", "rename")
    datahub_stage(v, sd, binary, "C19_mgmt", spec="SpecCreated", ds=["a", "b"], ent=["e1", "e2"], contents=c,
                  max_batch=2, max_steps=3 if thorough else 2, acts=acts, tables="plain", kinds=kinds,
                  rotate=True, per_world=150)
    datahub_stage(v, sd, binary, "C19_fromempty", spec="Spec", ds=["a", "b"], ent=["e1", "e2"], contents=c,
                  max_batch=1, max_steps=6 if thorough else 5, acts=acts, tables="plain", kinds=kinds,
                  rotate=True, per_world=150)
    datahub_stage(v, sd, binary, "C19_deep", spec="Spec", ds=["a", "b", "c"], ent=["e1", "e2", "e3"], contents=c,
                  max_batch=2, max_steps=10 if thorough else 8, acts=acts + ("restart",), tables="plain",
                  kinds=kinds, sample=True, seed=seed, fan=5 if thorough else 4, rotate=True, per_world=100,
                  target=30000 if thorough else 4000)
    v.assumptions = ["proxy / virtual / publicNamespaces settings are checked by the settings stage (later)",
                     "concurrent counter updates are covered by the concurrency stage (C05 machinery)"]
    return v.finish(rule=RULE_REPLAY)


def check_C14(tier, seed):
    v = Verdict("C14", tier, seed)
    v.wd = verif.workdir("C14")
    sd = verif.spec_copy(v.wd)
    binary = verif.build_harness(v.wd)
    thorough = tier == "thorough"
    mc = mgmt_contents()
    kinds = ("ent", "chg", "look", "rel", "cat")
    cl = classify_c03
    acts = ("store", "txn", "create", "delete", "rename", "restart")
    # restart inserted at every position of every bounded history; the suffix runs on the restarted hub
    datahub_stage(v, sd, binary, "C14_core", spec="SpecCreated", ds=["a", "b"], ent=["e1", "e2"], contents=mc[:2],
                  max_batch=1, max_steps=5 if thorough else 4, acts=("store", "delete", "create", "rename", "restart"),
                  tables="plain", kinds=kinds, limits=(0, 1), classify=cl(mc[:2]), rotate=True, per_world=100)
    datahub_stage(v, sd, binary, "C14_deep", spec="Spec", ds=["a", "b", "c"], ent=["e1", "e2", "e3"], contents=mc,
                  max_batch=2, max_steps=10 if thorough else 8, acts=acts + ("gc",), tables="plain,eqlen",
                  kinds=kinds, limits=(0, 1, 2), sample=True, seed=seed, fan=5 if thorough else 4, classify=cl(mc),
                  rotate=True, per_world=100, target=20000 if thorough else 2500)
    v.assumptions = ["restart = Store.Close + NewStore + NewDsManager on the same directory, at quiescent points",
                     "job definitions / tokens and security state across restart are checked by the hub-level stage"]
    return v.finish(rule=RULE_REPLAY)


# ----------------------------------------------------------------------------
# C12 (sequential part)

def compact_contents():
    return [content(1, p=(1, ["e2"])),      # A
            content(2, p=(1, ["e2"])),      # B: same reference, other properties
            content(0, d=True),             # deleted, bare
            content(1, d=True, p=(1, ["e2"])),  # deleted A
            content(1)]                     # A without the reference


def check_C12(tier, seed):
    v = Verdict("C12", tier, seed)
    v.wd = verif.workdir("C12")
    sd = verif.spec_copy(v.wd)
    binary = verif.build_harness(v.wd)
    thorough = tier == "thorough"
    cc = compact_contents()
    kinds = ("ent", "chg", "look", "rel", "past")
    cl = classify_c03
    acts = ("store", "dup", "compact")
    # (a) values flipping back and forth, references kept across property changes, legacy duplicates at every position
    datahub_stage(v, sd, binary, "C12_seq", ds=["a"], ent=["e1", "e2"], contents=cc[:4], max_batch=1,
                  max_steps=5 if thorough else 4, acts=acts, tables="plain", kinds=kinds, limits=(0, 1),
                  classify=cl(cc[:4]), rotate=True, per_world=150)
    # (b) bystander dataset, in-batch versions, writes after compaction
    datahub_stage(v, sd, binary, "C12_deep", ds=["a", "b"], ent=["e1", "e2"], contents=cc, max_batch=2,
                  max_steps=9 if thorough else 7, acts=acts + ("txn", "tick"), tables="plain,eqlen", kinds=kinds,
                  limits=(0, 1, 2), sample=True, seed=seed, fan=5 if thorough else 4, classify=cl(cc), rotate=True,
                  per_world=150, target=40000 if thorough else 4000)
    v.assumptions = ["legacy duplicate versions are injected the way the repository's compact_test.go does it",
                     "flush thresholds 1, 2 and the product default rotate over behaviours",
                     "racing writers and kills between flushes: concurrency/crash stage (hooks)"]
    return v.finish(rule=RULE_REPLAY)


# ----------------------------------------------------------------------------
# C20

def check_C20(tier, seed):
    v = Verdict("C20", tier, seed)
    v.wd = verif.workdir("C20")
    sd = verif.spec_copy(v.wd)
    binary = verif.build_harness(v.wd)
    thorough = tier == "thorough"
    mc = mgmt_contents()
    kinds = ("ent", "chg", "look", "rel", "cat")
    cl = classify_c03
    acts = ("store", "backup", "restart", "foreign")
    datahub_stage(v, sd, binary, "C20_seq", ds=["a"], ent=["e1", "e2"], contents=mc[:2], max_batch=1,
                  max_steps=6 if thorough else 5, acts=acts, tables="plain", kinds=kinds, limits=(0, 1),
                  classify=cl(mc[:2]), rotate=True, per_world=60)
    datahub_stage(v, sd, binary, "C20_deep", spec="Spec", ds=["a", "b"], ent=["e1", "e2"], contents=mc,
                  max_batch=2, max_steps=10 if thorough else 8, acts=acts + ("txn", "create", "delete", "rename"),
                  tables="plain,eqlen", kinds=kinds, limits=(0, 1), sample=True, seed=seed,
                  fan=5 if thorough else 4, classify=cl(mc), rotate=True, per_world=60,
                  target=10000 if thorough else 1500)
    v.assumptions = ["native backup mode (badger Backup/Load); restore = badger Load of datahub-backup.kv into an empty "
                     "directory followed by a normal hub start", "one fresh store per behaviour"]
    return v.finish(rule=RULE_REPLAY)
