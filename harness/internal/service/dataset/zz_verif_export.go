//go:build verif

package dataset

// VerifCompact runs a compaction synchronously (overlay-only export used by the
// /verif harness; not part of the product).
func (c *CompactionWorker) VerifCompact(datasetID string, strategy CompactionStrategy) error {
	return c.compact(datasetID, strategy)
}

// VerifDedupStrategy returns the deduplication strategy with the given flush
// threshold (0 = product default).
func VerifDedupStrategy(flushAfter int) CompactionStrategy {
	s := DeduplicationStrategy()
	s.(*deduplicationStrategy).flushAfter = flushAfter
	return s
}
