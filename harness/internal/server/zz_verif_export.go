//go:build verif

package server

import "time"

// VerifAssertID makes sure uri has an internal id (committed), so that the harness can fix the
// order of internal ids of its entity universe.  Overlay-only; not part of the product.
func (s *Store) VerifAssertID(uri string) (uint64, error) {
	id, _, err := s.assertIDForURI(uri, map[string]uint64{})
	if err != nil {
		return 0, err
	}
	return id, s.commitIDTxn()
}

// VerifForceLeaseExpiry makes the full-sync lease of ds (if one exists) time out now: it refreshes
// the lease of the running sync with a 1ns timeout, so that the product's own lease goroutine fires,
// and waits until it has run.  Returns false if the dataset has no lease.
func (ds *Dataset) VerifForceLeaseExpiry() bool {
	if ds.fullSyncLease == nil || !ds.fullSyncStarted {
		return false
	}
	old := ds.store.fullsyncLeaseTimeout
	ds.store.fullsyncLeaseTimeout = 1
	_ = ds.RefreshFullSyncLease(ds.fullSyncID)
	ds.store.fullsyncLeaseTimeout = old
	for i := 0; i < 2000 && ds.fullSyncStarted; i++ {
		time.Sleep(500 * time.Microsecond)
	}
	return true
}

// VerifLsmCompact waits until badger's background compactors have merged the level-0 tables (they start
// on their own once there are five of them) and then flattens the tree: versions and delete markers that no
// reader can see any more are dropped, as happens in a long-running hub at moments of badger's choosing.
// Returns the number of level-0 tables left.
func (s *Store) VerifLsmCompact() int {
	left := 0
	for i := 0; i < 150; i++ {
		left = 0
		for _, l := range s.database.Levels() {
			if l.Level == 0 {
				left = l.NumTables
			}
		}
		if left == 0 {
			break
		}
		time.Sleep(20 * time.Millisecond)
	}
	_ = s.database.Flatten(2)
	return left
}
