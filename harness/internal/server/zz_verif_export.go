//go:build verif

package server

// VerifAssertID makes sure uri has an internal id (committed), so that the harness can fix the
// order of internal ids of its entity universe.  Overlay-only; not part of the product.
func (s *Store) VerifAssertID(uri string) (uint64, error) {
	id, _, err := s.assertIDForURI(uri, map[string]uint64{})
	if err != nil {
		return 0, err
	}
	return id, s.commitIDTxn()
}
