//go:build verif

package server

import "time"

// VerifAssertID makes sure uri has an internal id (committed), so that the harness can fix the
// order of internal ids of its entity universe.  Overlay-only; not part of the product.
func (s *Store) VerifAssertID(uri string) (uint64, error) {
	id, _, err := s.assertIDForURI(uri, map[string]uint64{})
	if err != nil {
		return 0, err
	}
	return id, s.commitIDTxn()
}

// VerifForceLeaseExpiry makes the full-sync lease of ds (if one exists) time out now: it refreshes
// the lease of the running sync with a 1ns timeout, so that the product's own lease goroutine fires,
// and waits until it has run.  Returns false if the dataset has no lease.
func (ds *Dataset) VerifForceLeaseExpiry() bool {
	if ds.fullSyncLease == nil || !ds.fullSyncStarted {
		return false
	}
	old := ds.store.fullsyncLeaseTimeout
	ds.store.fullsyncLeaseTimeout = 1
	_ = ds.RefreshFullSyncLease(ds.fullSyncID)
	ds.store.fullsyncLeaseTimeout = old
	for i := 0; i < 2000 && ds.fullSyncStarted; i++ {
		time.Sleep(500 * time.Microsecond)
	}
	return true
}
