//go:build verif

package web

import "net/http"

// VerifHandler exposes the fully configured router (all middleware and routes) so that the
// /verif harness can serve requests in-process.  Overlay-only; not part of the product.
func (ws *WebService) VerifHandler() http.Handler { return ws.echo }

// VerifRoute is one registered route.
type VerifRoute struct {
	Method string `json:"method"`
	Path   string `json:"path"`
}

// VerifRoutes lists every route of the router.
func (ws *WebService) VerifRoutes() []VerifRoute {
	var out []VerifRoute
	for _, r := range ws.echo.Routes() {
		out = append(out, VerifRoute{Method: r.Method, Path: r.Path})
	}
	return out
}
