//go:build verif

package web

import "net/http"

// VerifHandler exposes the fully configured router (all middleware and routes) so that the
// /verif harness can serve requests in-process.  Overlay-only; not part of the product.
func (ws *WebService) VerifHandler() http.Handler { return ws.echo }
