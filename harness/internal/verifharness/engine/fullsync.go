package engine

import (
	"bytes"
	"encoding/json"
	"fmt"
	"net/http"
	"net/http/httptest"

	"github.com/mimiro-io/datahub/internal/jobs"
	"github.com/mimiro-io/datahub/internal/server"
)

// StepAnswer is what the real code answered to a step that has an answer of its own.
type StepAnswer struct {
	Status    int
	Fires     bool
	Completes bool
	Has       bool
}

// postEntities sends one POST /datasets/{ds}/entities through the real router.
func (s *Session) postEntities(real string, ents []*server.Entity, headers map[string]string) (int, string, error) {
	h, err := s.W.Web()
	if err != nil {
		return 0, "", err
	}
	body := make([]any, 0, len(ents)+1)
	body = append(body, s.W.Store.GetGlobalContext(false))
	for _, e := range ents {
		body = append(body, e)
	}
	raw, err := json.Marshal(body)
	if err != nil {
		return 0, "", err
	}
	req := httptest.NewRequest(http.MethodPost, "/datasets/"+real+"/entities", bytes.NewReader(raw))
	req.Header.Set("Content-Type", "application/json")
	for k, v := range headers {
		req.Header.Set(k, v)
	}
	rec := httptest.NewRecorder()
	h.ServeHTTP(rec, req)
	return rec.Code, rec.Body.String(), nil
}

func (s *Session) fsSink(real string) (*jobs.VerifSink, error) {
	if s.sink == nil {
		cfg := &jobs.JobConfiguration{ID: "fs-" + s.Tag, Title: "fs-" + s.Tag,
			Sink: map[string]interface{}{"Type": "DatasetSink", "Name": real}}
		v, err := s.W.Sched().VerifSinkFor(cfg)
		if err != nil {
			return nil, err
		}
		s.sink = v
	}
	return s.sink, nil
}

// fullSyncStep executes one step of spec/FullSync.tla and returns the step's own answer.
func (s *Session) fullSyncStep(st *Step) (StepAnswer, error) {
	real := s.DsReal(st.Ds)
	switch st.A {
	case "http":
		hd := map[string]string{}
		if st.ID != "" {
			hd["universal-data-api-full-sync-id"] = st.ID
		}
		if st.Start {
			hd["universal-data-api-full-sync-start"] = "true"
		}
		if st.End {
			hd["universal-data-api-full-sync-end"] = "true"
		}
		ents := s.batch(st.B)
		code, _, err := s.postEntities(real, ents, hd)
		if err != nil {
			return StepAnswer{}, err
		}
		// the harness clock follows the specification (a rejected request writes nothing)
		if st.X == nil || st.X.Status != 409 {
			s.tick(1, 0)
		}
		s.NonTriv = true
		return StepAnswer{Status: code, Has: true}, nil
	case "expire":
		ds := s.W.Dsm.GetDataset(real)
		if ds == nil {
			return StepAnswer{}, fmt.Errorf("dataset %s missing", real)
		}
		fired := ds.VerifForceLeaseExpiry()
		return StepAnswer{Fires: fired, Has: true}, nil
	case "jobstart":
		sk, err := s.fsSink(real)
		if err != nil {
			return StepAnswer{}, err
		}
		s.NonTriv = true
		return StepAnswer{}, sk.Start()
	case "jobbatch":
		sk, err := s.fsSink(real)
		if err != nil {
			return StepAnswer{}, err
		}
		if err := sk.Process(s.batch(st.B)); err != nil {
			return StepAnswer{}, err
		}
		s.tick(1, 0)
		return StepAnswer{}, nil
	case "jobend":
		sk, err := s.fsSink(real)
		if err != nil {
			return StepAnswer{}, err
		}
		before, _, err := s.Ad.Changes(s, real, 0, 0, false)
		if err != nil {
			return StepAnswer{}, err
		}
		if err := sk.End(); err != nil {
			return StepAnswer{}, err
		}
		after, _, err := s.Ad.Changes(s, real, 0, 0, false)
		if err != nil {
			return StepAnswer{}, err
		}
		// the specification advances its clock only if the end completes a sync
		if st.X != nil && st.X.Completes != nil && *st.X.Completes {
			s.tick(1, 0)
		}
		_ = before
		_ = after
		return StepAnswer{}, nil
	}
	return StepAnswer{}, fmt.Errorf("not a full-sync step: %s", st.A)
}

// compareAnswer compares a step's own answer with what a specification variant requires.
func compareAnswer(st *Step, x *StepX, got StepAnswer) (bool, any, any) {
	if x == nil || !got.Has {
		return true, nil, nil
	}
	switch st.A {
	case "http":
		return x.Status == got.Status, x.Status, got.Status
	case "expire":
		if x.Fires != nil {
			return *x.Fires == got.Fires, *x.Fires, got.Fires
		}
	}
	return true, nil, nil
}
