package engine

import (
	"bufio"
	"encoding/json"
	"fmt"
	"os"
	"path/filepath"
	"testing"
	"time"

	"github.com/mimiro-io/datahub/internal/jobs"
	"github.com/mimiro-io/datahub/internal/server"
)

type rerunCase struct {
	Retries int `json:"retries"`
	OkAfter int `json:"okAfter"`
	Steps   []struct {
		A       string `json:"a"`
		Calls   int    `json:"calls"`
		Pending int    `json:"pending"`
	} `json:"steps"`
	Executions int    `json:"executions"`
	Reruns     int    `json:"reruns"`
	Final      string `json:"final"`
}

// TestRerun executes the behaviours of spec/Rerun.tla on a real job with a reRun handler: "run" is an execution by
// the schedule (synchronous), "wave" waits until every timer the handler has started so far has fired and its
// execution is over.  The number of executions is compared after every step and once more after a further delay.
func TestRerun(t *testing.T) {
	in := os.Getenv("VERIF_TLC_OUT")
	if in == "" {
		t.Skip("VERIF_TLC_OUT not set")
	}
	start := time.Now()
	stride, offset := envInt("VERIF_STRIDE", 1), envInt("VERIF_OFFSET", 0)
	dir := os.Getenv("VERIF_DIR")
	outf, err := os.Create(os.Getenv("VERIF_RESULT"))
	if err != nil {
		t.Fatal(err)
	}
	defer outf.Close()
	out := bufio.NewWriter(outf)
	defer out.Flush()
	enc := json.NewEncoder(out)
	sum := Summary{Summary: true}
	w, err := OpenWorld(filepath.Join(dir, fmt.Sprintf("rr%d", offset)))
	if err != nil {
		t.Fatal(err)
	}
	defer w.Destroy()
	// Timers that fire while an execution of the same job is under way are refused by the runner (one run per job), so
	// the harness keeps every two executions apart: a pause before every scheduled run, and a retry delay long
	// enough for a whole wave plus the runs that follow it.
	delaySec := envInt("VERIF_RETRY_DELAY", 2)
	delay := time.Duration(delaySec) * time.Second
	const gap = 300 * time.Millisecond

	f, err := os.Open(in)
	if err != nil {
		t.Fatal(err)
	}
	defer f.Close()
	sc := bufio.NewScanner(f)
	sc.Buffer(make([]byte, 1<<20), 1<<26)
	idx := -1
	for sc.Scan() {
		payload, ok := ParseTLCLine(sc.Text(), "RCASE")
		if !ok {
			continue
		}
		idx++
		if idx%stride != offset {
			continue
		}
		c := &rerunCase{}
		if err := json.Unmarshal(payload, c); err != nil {
			t.Fatal(err)
		}
		sum.Behaviours++
		sum.Replays++
		tag := fmt.Sprintf("r%d", idx)
		r := Result{Idx: idx, Adapter: "jobs"}
		div := func(kind string, exp, act any) {
			r.Divs = append(r.Divs, Divergence{Kind: kind, Adapter: "jobs", Query: c, Expected: exp, Actual: act})
		}
		src, _ := w.Dsm.CreateDataset("src-"+tag, nil)
		_, _ = w.Dsm.CreateDataset("snk-"+tag, nil)
		e := server.NewEntity(fmt.Sprintf("%s:e-%s", w.EntP, tag), 0)
		e.Properties[w.PropP+":k"] = 1
		if err := src.StoreEntities([]*server.Entity{e}); err != nil {
			t.Fatal(err)
		}
		cfg := &jobs.JobConfiguration{ID: "job-" + tag, Title: "job-" + tag, BatchSize: 10,
			Source: map[string]interface{}{"Type": "DatasetSource", "Name": "src-" + tag},
			Sink:   map[string]interface{}{"Type": "DatasetSink", "Name": "snk-" + tag},
			Triggers: []jobs.JobTrigger{{TriggerType: jobs.TriggerTypeCron, JobType: jobs.JobTypeFull, Schedule: "0 0 1 1 *",
				ErrorHandlers: jobs.ErrorHandlers{&jobs.ErrorHandler{Type: "rerun", MaxRetries: c.Retries, RetryDelay: int64(delaySec)}}}}}
		hj, err := w.Sched().VerifHandledJobFor(cfg, nil, c.OkAfter, 0)
		if err != nil {
			t.Fatal(err)
		}
		waitCalls := func(n int, d time.Duration) int {
			deadline := time.Now().Add(d)
			for time.Now().Before(deadline) && (hj.Calls() < n || !hj.Idle()) {
				time.Sleep(20 * time.Millisecond)
			}
			return hj.Calls()
		}
		unfollowed := false
	steps:
		for i, st := range c.Steps {
			sum.Checks++
			switch st.A {
			case "run":
				time.Sleep(gap)
				if p := hj.Run(); p != "" {
					div("job-panic", "run ends as success or failure", p)
					break steps
				}
				if got := hj.Calls(); got != st.Calls {
					div("executions", map[string]any{"after_step": i + 1, "executions": st.Calls}, got)
					break steps
				}
			case "wave":
				got := waitCalls(st.Calls, delay+1500*time.Millisecond)
				if got < st.Calls {
					// two executions came too close on this machine and the runner refused one: fewer executions than
					// the model is inside the property (at most maxRetries); the behaviour cannot be followed further
					unfollowed = true
					break steps
				}
				if got != st.Calls {
					div("executions", map[string]any{"after_step": i + 1, "executions": st.Calls}, got)
					break steps
				}
			}
		}
		if unfollowed {
			time.Sleep(2*delay + 500*time.Millisecond)
		} else if len(r.Divs) == 0 {
			sum.NonTrivial++
			// nothing is pending: no further execution, whatever time passes
			time.Sleep(delay + 400*time.Millisecond)
			sum.Checks += 2
			if got := hj.Calls(); got > c.Executions || (got < c.Executions && c.Reruns == 0) {
				div("executions", map[string]any{"in_total": c.Executions, "by_timer": c.Reruns, "max_retries": c.Retries}, got)
			}
			lastErr, _, has := hj.Result()
			if !has || (c.Final == "ok") != (lastErr == "") {
				div("job-result", c.Final, lastErr)
			}
			if !hj.Idle() {
				div("job-slot", "run slot released", "still running")
			}
		} else {
			time.Sleep(2*delay + 500*time.Millisecond) // let stray timers of this job run out before the next case
		}
		if len(sum.Samples) < 3 && len(c.Steps) > 2 {
			sum.Samples = append(sum.Samples, c)
		}
		if len(r.Divs) > 0 {
			sum.Diverging++
			_ = enc.Encode(r)
		}
	}
	sum.WallSeconds = time.Since(start).Seconds()
	_ = enc.Encode(sum)
}
