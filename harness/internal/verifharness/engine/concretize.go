package engine

import (
	"encoding/json"
	"fmt"
	"sort"
	"strings"

	"github.com/mimiro-io/datahub/internal/server"
)

// A Table maps abstract property tokens to concrete property maps.  Token 0 is
// always "no properties"; different tokens always map to different maps.
type Table struct {
	Name   string
	Native bool // use Go-native value types ([]string refs, ints) instead of JSON-decoded shapes
	Props  func(p int, w *World) map[string]any
}

func pad(n int) string {
	if n < 0 {
		n = 0
	}
	return strings.Repeat("z", n)
}

// Tables covers the JSON value shapes the properties quantify over, plus a table
// whose contents are engineered to have equal serialized length:
//   - "deleted, no props" vs "live, props token 3"  (`,"deleted":true` is 15 bytes)
//   - "deleted, token 1"  vs "live, token 4"
//   - token 1 vs token 2 (same key, same-length values), token 5 vs 1 (same-length keys),
//     tokens 6 and 7 vs 1 (number / array of the same length as the string)
//   - with entity names "e1" and "e1xx": single reference to e1xx vs array reference [e1]
var Tables = []Table{
	{Name: "plain", Props: func(p int, w *World) map[string]any {
		k, j := w.PropP+":k", w.PropP+":j"
		switch p {
		case 0:
			return map[string]any{}
		case 1:
			return map[string]any{k: "v1"}
		case 2:
			return map[string]any{k: "v2"}
		case 3:
			return map[string]any{k: "v1", j: "w"}
		case 4:
			return map[string]any{j: "w"}
		default:
			return map[string]any{k: fmt.Sprintf("v%d", p)}
		}
	}},
	{Name: "eqlen", Props: func(p int, w *World) map[string]any {
		k, j := w.PropP+":k", w.PropP+":j"
		switch p {
		case 0:
			return map[string]any{}
		case 1:
			return map[string]any{k: "aaaa"}
		case 2:
			return map[string]any{k: "bbbb"}
		case 3: // `"P:j":"<pad>"` is exactly 15 bytes
			return map[string]any{j: pad(15 - len(j) - 5)}
		case 4: // k:"aaaa" plus `,"P:j":"<pad>"` of exactly 15 bytes
			return map[string]any{k: "aaaa", j: pad(15 - len(j) - 6)}
		case 5: // same length as token 1, different key
			return map[string]any{j: "aaaa"}
		case 6: // same length as token 1, number instead of string
			return map[string]any{k: 123456.0}
		case 7: // same length as token 1, array instead of string
			return map[string]any{k: []any{1.0, 23.0}}
		default:
			return map[string]any{k: strings.Repeat(string(rune('a'+p)), 4)}
		}
	}},
	{Name: "shapes", Props: func(p int, w *World) map[string]any {
		k, j := w.PropP+":k", w.PropP+":j"
		switch p {
		case 0:
			return map[string]any{}
		case 1:
			return map[string]any{k: 1.0}
		case 2:
			return map[string]any{k: 1.5}
		case 3:
			return map[string]any{k: []any{1.0, "2", true}}
		case 4:
			return map[string]any{k: "1", j: false}
		case 5:
			return map[string]any{k: true}
		default:
			return map[string]any{k: float64(p)}
		}
	}},
	{Name: "nested", Props: func(p int, w *World) map[string]any {
		k, j := w.PropP+":k", w.PropP+":j"
		sub := func(v string) map[string]any {
			return map[string]any{"id": w.EntP + ":sub", "props": map[string]any{k: v}, "refs": map[string]any{}}
		}
		switch p {
		case 0:
			return map[string]any{}
		case 1:
			return map[string]any{k: sub("x")}
		case 2:
			return map[string]any{k: sub("y")}
		case 3:
			return map[string]any{k: []any{[]any{1.0}, []any{2.0}}}
		case 4:
			return map[string]any{k: []any{sub("x"), sub("y")}, j: nil}
		case 5:
			return map[string]any{k: []any{"a", "b"}}
		default:
			return map[string]any{k: []any{float64(p)}}
		}
	}},
	{Name: "native", Native: true, Props: func(p int, w *World) map[string]any {
		k, j := w.PropP+":k", w.PropP+":j"
		switch p {
		case 0:
			return map[string]any{}
		case 1:
			return map[string]any{k: 1}
		case 2:
			return map[string]any{k: int64(2)}
		case 3:
			return map[string]any{k: []string{"a", "b"}}
		case 4:
			return map[string]any{k: []int{1, 2}, j: "x"}
		case 5:
			return map[string]any{k: float32(2.5)}
		default:
			return map[string]any{k: p}
		}
	}},
}

// CEntity is the canonical, comparable form of an entity content.
type CEntity struct {
	ID    string         `json:"id"`
	Props map[string]any `json:"props"`
	Refs  map[string]any `json:"refs"`
	Del   bool           `json:"deleted"`
}

func jsonNorm(v any) any {
	b, err := json.Marshal(v)
	if err != nil {
		return fmt.Sprintf("!marshal:%v", err)
	}
	var out any
	if err := json.Unmarshal(b, &out); err != nil {
		return fmt.Sprintf("!unmarshal:%v", err)
	}
	return out
}

func normMap(m map[string]any) map[string]any {
	if m == nil {
		return map[string]any{}
	}
	r, ok := jsonNorm(m).(map[string]any)
	if !ok || r == nil {
		return map[string]any{}
	}
	return r
}

// Canon turns a real entity into canonical form (JSON-normalised values).
func Canon(e *server.Entity) CEntity {
	if e == nil {
		return CEntity{Props: map[string]any{}, Refs: map[string]any{}}
	}
	return CEntity{ID: e.ID, Props: normMap(e.Properties), Refs: normMap(e.References), Del: e.IsDeleted}
}

func (c CEntity) Key() string {
	b, _ := json.Marshal(c)
	return string(b)
}

func (c CEntity) String() string { return c.Key() }

// bagKey renders a value as a bag: lists are flattened one level and sorted.
func bagKey(vals []any) string {
	var flat []string
	for _, v := range vals {
		if l, ok := v.([]any); ok {
			for _, x := range l {
				b, _ := json.Marshal(x)
				flat = append(flat, string(b))
			}
		} else {
			b, _ := json.Marshal(v)
			flat = append(flat, string(b))
		}
	}
	sort.Strings(flat)
	return strings.Join(flat, "|")
}

// MergeEqual decides whether actual equals the merge of the given partial maps:
// key union; a key carried by exactly one partial keeps its value; a key carried
// by several partials holds the bag of all their values (lists flattened).
func MergeEqual(parts []map[string]any, actual map[string]any) bool {
	keys := map[string][]any{}
	for _, p := range parts {
		for k, v := range p {
			keys[k] = append(keys[k], v)
		}
	}
	if len(keys) != len(actual) {
		return false
	}
	for k, vals := range keys {
		av, ok := actual[k]
		if !ok {
			return false
		}
		if len(vals) == 1 {
			a, _ := json.Marshal(av)
			b, _ := json.Marshal(vals[0])
			if string(a) != string(b) {
				return false
			}
		} else if bagKey(vals) != bagKey([]any{av}) {
			return false
		}
	}
	return true
}
