package engine

import (
	"bytes"
	"encoding/json"
	"fmt"
	"math/rand"
	"os"
	"runtime"
	"runtime/pprof"
	"strconv"
	"sync"
	"sync/atomic"
	"testing"
	"time"

	"github.com/mimiro-io/datahub/internal/server"
	"github.com/mimiro-io/datahub/internal/verifhook"
)

type linEvent struct {
	K     string      `json:"k"`
	C     int         `json:"c,omitempty"`
	N     int         `json:"n,omitempty"`
	Parts [][2]any    `json:"parts,omitempty"`
	Tags  []string    `json:"tags,omitempty"`
	Ds    string      `json:"ds,omitempty"`
	Len   *int        `json:"n_len,omitempty"`
	G     int64       `json:"g,omitempty"`
	Ev    string      `json:"ev,omitempty"`
	Name  string      `json:"name,omitempty"`
	Items [][2]string `json:"items,omitempty"`
	Count *int        `json:"items_count,omitempty"`
}

func goid() int64 {
	var buf [64]byte
	n := runtime.Stack(buf[:], false)
	f := bytes.Fields(buf[:n])
	if len(f) < 2 {
		return 0
	}
	id, _ := strconv.ParseInt(string(f[1]), 10, 64)
	return id
}

// TestConcurrency is the C05 stress driver (run in a child process): concurrent batch writers,
// transactions over the same pair of datasets named in different orders, a transaction client that
// includes core.Dataset, a manager creating/deleting a third dataset, and readers.  Every
// acknowledged write, every single-call read of things only ever written together, the observed
// lock acquisitions and the final feeds are written as a trace for spec/TraceLin.tla.  A watchdog
// turns "no client made progress" into exit code 97.
func TestConcurrency(t *testing.T) {
	tracePath := os.Getenv("VERIF_TRACE")
	if tracePath == "" || os.Getenv("VERIF_OPS") == "" {
		t.Skip("not a concurrency run")
	}
	opsPerClient := envInt("VERIF_OPS", 12)
	seed := int64(envInt("VERIF_SEED", 1))
	w, err := OpenWorld(os.Getenv("VERIF_DIR"))
	if err != nil {
		t.Fatal(err)
	}
	// VERIF_WIDE: more datasets and two batch writers per dataset, all of them bringing in the same
	// never-seen ids at about the same time (id assertion races between writers of different datasets)
	wide := os.Getenv("VERIF_WIDE") == "1"
	names := []string{"a", "b"}
	nWriters := 3
	if wide {
		names = []string{"a", "b", "x", "y"}
		nWriters = 8
	}
	for _, nm := range names {
		_, _ = w.Dsm.CreateDataset(nm, nil)
	}
	var freshCtr int64
	var mu sync.Mutex
	var events []linEvent
	add := func(e linEvent) { mu.Lock(); events = append(events, e); mu.Unlock() }
	if wide {
		// volume run: no lock-order recording (its global mutex would serialise the clients)
		opsPerClient = envInt("VERIF_OPS_WIDE", 200)
	}
	verifhook.SetHandler(func(id, arg string) {
		if wide {
			return
		}
		switch id {
		case "store.locked", "txn.locked":
			add(linEvent{K: "lock", G: goid(), Ev: "got", Name: arg})
		case "store.unlocked", "txn.unlocked":
			add(linEvent{K: "lock", G: goid(), Ev: "rel", Name: arg})
		}
	})
	var progress int64
	finished := make(chan struct{})
	go func() { // watchdog
		last, lastAt := int64(-1), time.Now()
		for {
			select {
			case <-finished:
				return
			case <-time.After(500 * time.Millisecond):
			}
			p := atomic.LoadInt64(&progress)
			if p != last {
				last, lastAt = p, time.Now()
			} else if time.Since(lastAt) > 60*time.Second {
				fmt.Fprintln(os.Stderr, "HANG: no client made progress for 60s; goroutines:")
				_ = pprof.Lookup("goroutine").WriteTo(os.Stderr, 1)
				os.Exit(97)
			}
		}
	}()
	ent := func(id, tag string) *server.Entity {
		e := server.NewEntity(w.EntP+":"+id, 0)
		e.Properties[w.PropP+":tag"] = tag
		return e
	}
	var wg sync.WaitGroup
	client := func(c int, fn func(c, n int, rnd *rand.Rand) ([][2]any, error)) {
		wg.Add(1)
		go func() {
			defer wg.Done()
			rnd := rand.New(rand.NewSource(seed*1000 + int64(c)))
			acked := 0
			for n := 1; n <= opsPerClient; n++ {
				if !wide {
					add(linEvent{K: "lock", G: goid(), Ev: "op"})
				}
				parts, err := fn(c, n, rnd)
				atomic.AddInt64(&progress, 1)
				if err == nil && parts != nil {
					acked++
					add(linEvent{K: "op", C: c, N: acked, Parts: parts})
				}
			}
		}()
	}
	// batch writers: a pair of ids that is only ever written together, in one batch
	for c := 1; c <= nWriters; c++ {
		client(c, func(c, n int, rnd *rand.Rand) ([][2]any, error) {
			name := names[rnd.Intn(2)]
			tag := fmt.Sprintf("w%d-%d", c, n)
			p := rnd.Intn(2)
			// an id nobody has used before, brought in by several batch writers at about the same time
			fresh := fmt.Sprintf("s%d", n)
			if wide {
				name = names[c%len(names)]
				fresh = fmt.Sprintf("s%d", atomic.AddInt64(&freshCtr, 1)/8)
			}
			batch := []*server.Entity{ent(fmt.Sprintf("p%dx", p), tag), ent(fmt.Sprintf("p%dy", p), tag), ent(fresh, tag)}
			items := [][2]string{{fmt.Sprintf("p%dx", p), tag}, {fmt.Sprintf("p%dy", p), tag}, {fresh, tag}}
			if wide {
				for _, sfx := range []string{"b", "c"} {
					batch = append(batch, ent(fresh+sfx, tag))
					items = append(items, [2]string{fresh + sfx, tag})
				}
				batch[2].References[w.PropP+":rel"] = w.EntP + ":r" + fresh
			}
			err := w.Dsm.GetDataset(name).StoreEntities(batch)
			return [][2]any{{name, items}}, err
		})
	}
	// transactions over {a, b}: the same entity in both datasets, only ever written by transactions
	for c := nWriters + 1; c <= nWriters+3; c++ {
		client(c, func(c, n int, rnd *rand.Rand) ([][2]any, error) {
			tag := fmt.Sprintf("t%d-%d", c, n)
			id := fmt.Sprintf("t%d", rnd.Intn(2))
			m := map[string][]*server.Entity{}
			order := []string{"a", "b"}
			if (c+n)%2 == 0 {
				order = []string{"b", "a"}
			}
			for _, name := range order {
				m[name] = []*server.Entity{ent(id, tag)}
			}
			err := w.Store.ExecuteTransaction(&server.Transaction{DatasetEntities: m})
			return [][2]any{{"a", [][2]string{{id, tag}}}, {"b", [][2]string{{id, tag}}}}, err
		})
	}
	// a transaction client that includes core.Dataset and always brings a new id into a
	client(nWriters+4, func(c, n int, rnd *rand.Rand) ([][2]any, error) {
		tag := fmt.Sprintf("k%d-%d", c, n)
		id := fmt.Sprintf("k%d", n)
		m := map[string][]*server.Entity{
			"a":            {ent(id, tag)},
			"core.Dataset": {ent("extra", tag)},
		}
		err := w.Store.ExecuteTransaction(&server.Transaction{DatasetEntities: m})
		return [][2]any{{"a", [][2]string{{id, tag}}}}, err
	})
	// manager: create / write / delete a third dataset
	client(nWriters+5, func(c, n int, rnd *rand.Rand) ([][2]any, error) {
		ds, err := w.Dsm.CreateDataset("c", nil)
		if err == nil {
			_ = ds.StoreEntities([]*server.Entity{ent("m", fmt.Sprintf("m%d", n))})
			err = w.Dsm.DeleteDataset("c")
		}
		return nil, err
	})
	// readers: one call each
	stop := make(chan struct{})
	var rwg sync.WaitGroup
	for r := 0; r < 3; r++ {
		rwg.Add(1)
		go func(r int) {
			defer rwg.Done()
			rnd := rand.New(rand.NewSource(seed*77 + int64(r)))
			for i := 0; ; i++ {
				select {
				case <-stop:
					return
				default:
				}
				switch i % 3 {
				case 0: // unscoped lookup merges the partials of a and b written by one transaction
					e, err := w.Store.GetEntity(w.EntP+":"+fmt.Sprintf("t%d", rnd.Intn(2)), nil, true)
					if err == nil && e != nil {
						if l, ok := e.Properties[w.PropP+":tag"].([]interface{}); ok && len(l) == 2 {
							add(linEvent{K: "pair", Tags: []string{fmt.Sprint(l[0]), fmt.Sprint(l[1])}})
						}
					}
				case 1: // one listing call: the two ids of a pair carry the tag of one batch
					name := []string{"a", "b"}[rnd.Intn(2)]
					res, err := w.Dsm.GetDataset(name).GetEntities("", 0)
					if err == nil {
						tags := map[string]string{}
						for _, e := range res.Entities {
							tags[e.ID] = fmt.Sprint(e.Properties[w.PropP+":tag"])
						}
						for p := 0; p < 2; p++ {
							x, okx := tags[w.EntP+":"+fmt.Sprintf("p%dx", p)]
							y, oky := tags[w.EntP+":"+fmt.Sprintf("p%dy", p)]
							if okx || oky {
								add(linEvent{K: "pair", Tags: []string{x, y}})
							}
						}
					}
				case 2: // one feed call from the start: ends on a batch boundary
					name := []string{"a", "b"}[rnd.Intn(2)]
					ch, err := w.Dsm.GetDataset(name).GetChanges(0, 0, false)
					if err == nil {
						n := len(ch.Entities)
						add(linEvent{K: "page", Ds: name, Len: &n})
					}
				}
				time.Sleep(time.Duration(rnd.Intn(300)) * time.Microsecond)
			}
		}(r)
	}
	wg.Wait()
	close(stop)
	rwg.Wait()
	close(finished)
	verifhook.SetHandler(nil)
	for _, name := range names {
		ds := w.Dsm.GetDataset(name)
		ch, err := ds.GetChanges(0, 0, false)
		if err != nil {
			t.Fatal(err)
		}
		var items [][2]string
		for _, e := range ch.Entities {
			items = append(items, [2]string{e.ID[len(w.EntP)+1:], fmt.Sprint(e.Properties[w.PropP+":tag"])})
		}
		add(linEvent{K: "feed", Ds: name, Items: items})
		// what lookups by URI and one listing answer at the end, for every id of the feed
		var looks [][2]string
		seen := map[string]bool{}
		for _, it := range items {
			if seen[it[0]] {
				continue
			}
			seen[it[0]] = true
			got := "<absent>"
			if e, err := w.Store.GetEntity(w.EntP+":"+it[0], []string{name}, true); err == nil && e != nil {
				got = fmt.Sprint(e.Properties[w.PropP+":tag"])
			}
			looks = append(looks, [2]string{it[0], got})
		}
		add(linEvent{K: "look", Ds: name, Items: looks})
		if res, err := ds.GetEntities("", 0); err == nil {
			var list [][2]string
			for _, e := range res.Entities {
				list = append(list, [2]string{e.ID[len(w.EntP)+1:], fmt.Sprint(e.Properties[w.PropP+":tag"])})
			}
			add(linEvent{K: "list", Ds: name, Items: list})
		}
		cat, err := GoAdapter{}.Catalogue(&Session{W: w})
		if err == nil {
			n := cat[name].Items
			add(linEvent{K: "count", Ds: name, Count: &n})
		}
	}
	f, err := os.Create(tracePath)
	if err != nil {
		t.Fatal(err)
	}
	defer f.Close()
	enc := json.NewEncoder(f)
	for _, e := range events {
		// TraceLin reads "n" for page lengths and "items" for counters
		raw, _ := json.Marshal(e)
		var m map[string]any
		_ = json.Unmarshal(raw, &m)
		if v, ok := m["n_len"]; ok {
			m["n"] = v
			delete(m, "n_len")
		}
		if v, ok := m["items_count"]; ok {
			m["items"] = v
			delete(m, "items_count")
		}
		if (e.K == "feed" || e.K == "look" || e.K == "list") && e.Items == nil {
			m["items"] = []any{}
		}
		_ = enc.Encode(m)
	}
	w.Destroy()
}
