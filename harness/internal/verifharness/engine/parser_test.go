package engine

import (
	"bufio"
	"bytes"
	"encoding/json"
	"fmt"
	"net/http"
	"net/http/httptest"
	"os"
	"path/filepath"
	"strings"
	"testing"
	"time"

	"github.com/mimiro-io/datahub/internal/server"
)

type entShape struct {
	ID    string `json:"id"`
	Del   string `json:"del"`
	Rec   string `json:"rec"`
	Props string `json:"props"`
	Refs  string `json:"refs"`
	Ord   string `json:"ord"`
}

type docCase struct {
	Ctx     string     `json:"ctx"`
	Ents    []entShape `json:"ents"`
	Cut     int        `json:"cut"`
	Valid   bool       `json:"valid"`
	TxValid bool       `json:"txvalid"`
	Bad     int        `json:"bad"`
}

const nsJSON = `{"ex":"` + EntNS + `","r":"` + PredNS + `","p":"` + PropNS + `","_":"` + EntNS + `"}`

// swapped_hub_prefixes: the payload comes from another hub, whose generated prefix names are this hub's in a different
// numbering: the payload calls PropNS what this hub calls Prop2NS and the other way round (same for the predicates).
const (
	Prop2NS = "http://verif.test/p2/"
	Pred2NS = "http://verif.test/r2/"
)

func swappedPrefixes(w *World) (p, p2, r, r2 string) {
	p2, _ = w.Store.NamespaceManager.AssertPrefixMappingForExpansion(Prop2NS)
	r2, _ = w.Store.NamespaceManager.AssertPrefixMappingForExpansion(Pred2NS)
	return w.PropP, p2, w.PredP, r2
}

func renderCtxW(w *World, shape string) string {
	if shape == "swapped_hub_prefixes" {
		p, p2, r, r2 := swappedPrefixes(w)
		return `{"id":"@context","namespaces":{"ex":"` + EntNS + `","` + r + `":"` + Pred2NS + `","` + r2 + `":"` + PredNS + `","` + p + `":"` + Prop2NS + `","` + p2 + `":"` + PropNS + `","_":"` + EntNS + `"}}`
	}
	return renderCtx(shape)
}

// swapEnt rewrites an entity rendered for the plain context into the other hub's prefix names, and adds a property and a
// reference of the second namespaces whose payload keys are literally the names this hub gives to the first ones.
func swapEnt(w *World, e entShape, txt string, exp *CEntity) string {
	p, p2, r, r2 := swappedPrefixes(w)
	txt = strings.ReplaceAll(txt, `"p:`, `"`+p2+`:`)
	txt = strings.ReplaceAll(txt, `"r:`, `"`+r2+`:`)
	if e.Props == "scalars" && strings.Contains(txt, `"props":{"`+p2+`:a":"s",`) {
		txt = strings.Replace(txt, `"props":{"`+p2+`:a":"s",`, `"props":{"`+p2+`:a":"s","`+p+`:a":"other","`+p+`:z":7,`, 1)
		exp.Props[p2+":a"] = "other"
		exp.Props[p2+":z"] = 7.0
	}
	if e.Refs == "single" && e.Props != "array_of_entities" && strings.Contains(txt, `"refs":{"`+r2+`:p":"ex:t1"}`) {
		txt = strings.Replace(txt, `"refs":{"`+r2+`:p":"ex:t1"}`, `"refs":{"`+r2+`:p":"ex:t1","`+r+`:p":"ex:t9"}`, 1)
		exp.Refs[r2+":p"] = w.EntP + ":t9"
	}
	return txt
}

func renderCtx(shape string) string {
	switch shape {
	case "ok", "ok_default_prefix":
		return `{"id":"@context","namespaces":` + nsJSON + `}`
	case "no_namespaces":
		return `{"id":"@context"}`
	case "namespaces_null":
		return `{"id":"@context","namespaces":null}`
	case "namespaces_array":
		return `{"id":"@context","namespaces":[]}`
	case "namespace_value_number":
		return `{"id":"@context","namespaces":{"ex":5,"p":"` + PropNS + `"}}`
	case "id_not_context":
		return `{"id":"ex:notacontext","namespaces":` + nsJSON + `}`
	}
	return "" // missing
}

// renderEnt returns the JSON text of an entity and, if every slot is valid, the entity it denotes.
func renderEnt(w *World, e entShape, name string) (string, *CEntity) {
	var parts []string
	exp := &CEntity{Props: map[string]any{}, Refs: map[string]any{}}
	curie := w.EntP + ":" + name
	switch e.ID {
	case "curie":
		parts = append(parts, `"id":"ex:`+name+`"`)
	case "default_prefix":
		parts = append(parts, `"id":"`+name+`"`)
	case "absolute_uri":
		parts = append(parts, `"id":"`+EntNS+name+`"`)
	case "curie_colon_local":
		parts = append(parts, `"id":"ex:urn:isbn:`+name+`"`)
		curie = w.EntP + ":urn:isbn:" + name
	case "number":
		parts = append(parts, `"id":5`)
	case "null":
		parts = append(parts, `"id":null`)
	case "object":
		parts = append(parts, `"id":{"x":1}`)
	case "unknown_prefix":
		parts = append(parts, `"id":"zz:`+name+`"`)
	}
	exp.ID = curie
	switch e.Del {
	case "true":
		parts = append(parts, `"deleted":true`)
		exp.Del = true
	case "false":
		parts = append(parts, `"deleted":false`)
	case "string":
		parts = append(parts, `"deleted":"yes"`)
	case "number":
		parts = append(parts, `"deleted":1`)
	}
	switch e.Rec {
	case "number":
		parts = append(parts, `"recorded":1234567`)
	case "string":
		parts = append(parts, `"recorded":"now"`)
	}
	pp := w.PropP
	switch e.Props {
	case "empty":
		parts = append(parts, `"props":{}`)
	case "scalars":
		parts = append(parts, `"props":{"p:a":"s","p:b":1.5,"p:c":true}`)
		exp.Props = map[string]any{pp + ":a": "s", pp + ":b": 1.5, pp + ":c": true}
	case "arrays_nested":
		parts = append(parts, `"props":{"p:a":[1,"x",[2,3]]}`)
		exp.Props = map[string]any{pp + ":a": []any{1.0, "x", []any{2.0, 3.0}}}
	case "nested_entity":
		parts = append(parts, `"props":{"p:a":{"id":"ex:sub","props":{"p:k":"v"},"refs":{}}}`)
		exp.Props = map[string]any{pp + ":a": map[string]any{"id": w.EntP + ":sub", "props": map[string]any{pp + ":k": "v"}, "refs": map[string]any{}}}
	case "unicode_escapes":
		parts = append(parts, `"props":{"p:a":"\u00e9\n\"q\"\\ \ud83d\ude00","p:b":"<&>","p:c":" "}`)
		exp.Props = map[string]any{pp + ":a": "é\n\"q\"\\ 😀", pp + ":b": "<&>", pp + ":c": " "}
	case "empty_arrays":
		parts = append(parts, `"props":{"p:a":[],"p:b":[[],[1]],"p:c":"s"}`)
		exp.Props = map[string]any{pp + ":a": []any{}, pp + ":b": []any{[]any{}, []any{1.0}}, pp + ":c": "s"}
	case "numbers": // (a JSON null value is dropped by the parser; whether null denotes a property is left open, not checked)
		parts = append(parts, `"props":{"p:b":1e3,"p:c":-0.5,"p:d":123456789012,"p:e":""}`)
		exp.Props = map[string]any{pp + ":b": 1000.0, pp + ":c": -0.5, pp + ":d": 123456789012.0, pp + ":e": ""}
	case "array_of_entities":
		parts = append(parts, `"props":{"p:a":[{"id":"ex:s1","props":{"p:k":[]},"refs":{"r:p":"ex:t1"}},{"id":"ex:s2","props":{},"refs":{}}]}`)
		exp.Props = map[string]any{pp + ":a": []any{
			map[string]any{"id": w.EntP + ":s1", "props": map[string]any{pp + ":k": []any{}}, "refs": map[string]any{rp0(w) + ":p": w.EntP + ":t1"}},
			map[string]any{"id": w.EntP + ":s2", "props": map[string]any{}, "refs": map[string]any{}}}}
	case "colon_keys":
		parts = append(parts, `"props":{"p:dc:title":"t","p:dc:creator":"c","p:a":1}`)
		exp.Props = map[string]any{pp + ":dc:title": "t", pp + ":dc:creator": "c", pp + ":a": 1.0}
	case "array_instead_of_object":
		parts = append(parts, `"props":[1,2]`)
	case "unknown_prefix_key":
		parts = append(parts, `"props":{"zz:a":1}`)
	}
	rp := w.PredP
	switch e.Refs {
	case "empty":
		parts = append(parts, `"refs":{}`)
	case "single":
		parts = append(parts, `"refs":{"r:p":"ex:t1"}`)
		exp.Refs = map[string]any{rp + ":p": w.EntP + ":t1"}
	case "array":
		parts = append(parts, `"refs":{"r:p":["ex:t1","ex:t2"]}`)
		exp.Refs = map[string]any{rp + ":p": []any{w.EntP + ":t1", w.EntP + ":t2"}}
	case "colon_values":
		parts = append(parts, `"refs":{"r:p":"ex:urn:t:1","r:rel:sub":["ex:urn:t:2","ex:urn:u:2"]}`)
		exp.Refs = map[string]any{rp + ":p": w.EntP + ":urn:t:1", rp + ":rel:sub": []any{w.EntP + ":urn:t:2", w.EntP + ":urn:u:2"}}
	case "empty_array":
		parts = append(parts, `"refs":{"r:p":[]}`)
		exp.Refs = map[string]any{rp + ":p": []any{}}
	case "number_value":
		parts = append(parts, `"refs":{"r:p":5}`)
	case "array_with_number":
		parts = append(parts, `"refs":{"r:p":["ex:t1",5]}`)
	case "object_value":
		parts = append(parts, `"refs":{"r:p":{"id":"ex:t1"}}`)
	case "unknown_prefix_value":
		parts = append(parts, `"refs":{"r:p":"zz:t1"}`)
	}
	// key order of the entity object
	switch e.Ord {
	case "reversed":
		for i, j := 0, len(parts)-1; i < j; i, j = i+1, j-1 {
			parts[i], parts[j] = parts[j], parts[i]
		}
	case "id_last":
		if len(parts) > 1 && strings.HasPrefix(parts[0], `"id"`) {
			parts = append(parts[1:], parts[0])
		}
	case "deleted_first":
		for i, p := range parts {
			if strings.HasPrefix(p, `"deleted"`) && i > 0 {
				rest := append(append([]string{}, parts[:i]...), parts[i+1:]...)
				parts = append([]string{p}, rest...)
				break
			}
		}
	}
	return "{" + strings.Join(parts, ",") + "}", exp
}

func rp0(w *World) string { return w.PredP }

func renderDoc(w *World, d *docCase, tag string) (string, []CEntity) {
	var elems []string
	if c := renderCtxW(w, d.Ctx); c != "" {
		elems = append(elems, c)
	}
	var exp []CEntity
	for i, e := range d.Ents {
		txt, ce := renderEnt(w, e, fmt.Sprintf("e%d-%s", i+1, tag))
		if d.Ctx == "swapped_hub_prefixes" {
			txt = swapEnt(w, e, txt, ce)
		}
		elems = append(elems, txt)
		exp = append(exp, *ce)
	}
	if d.Cut > 0 && d.Cut <= len(elems) {
		return "[" + strings.Join(elems[:d.Cut], ","), exp // cut off: no closing bracket
	}
	return "[" + strings.Join(elems, ",") + "]", exp
}

func parseDirect(w *World, doc string) (ents []*server.Entity, err error, panicked string) {
	defer func() {
		if r := recover(); r != nil {
			panicked = fmt.Sprint(r)
		}
	}()
	esp := server.NewEntityStreamParser(w.Store)
	err = esp.ParseStream(strings.NewReader(doc), func(e *server.Entity) error {
		ents = append(ents, e)
		return nil
	})
	return
}

// TestParser feeds every document TLC enumerated from spec/Parser.tla (and byte truncations of the
// valid ones) to the real stream parser and to POST /datasets/{ds}/entities, and parses what the
// hub serialises back (round trip).
func TestParser(t *testing.T) {
	in := os.Getenv("VERIF_TLC_OUT")
	if in == "" {
		t.Skip("VERIF_TLC_OUT not set")
	}
	start := time.Now()
	stride, offset := envInt("VERIF_STRIDE", 1), envInt("VERIF_OFFSET", 0)
	outf, err := os.Create(os.Getenv("VERIF_RESULT"))
	if err != nil {
		t.Fatal(err)
	}
	defer outf.Close()
	out := bufio.NewWriter(outf)
	defer out.Flush()
	enc := json.NewEncoder(out)
	w, err := OpenWorld(filepath.Join(os.Getenv("VERIF_DIR"), fmt.Sprintf("pw%d", offset)))
	if err != nil {
		t.Fatal(err)
	}
	defer w.Destroy()
	h, err := w.Web()
	if err != nil {
		t.Fatal(err)
	}
	sum := Summary{Summary: true}
	f, err := os.Open(in)
	if err != nil {
		t.Fatal(err)
	}
	defer f.Close()
	sc := bufio.NewScanner(f)
	sc.Buffer(make([]byte, 1<<20), 1<<26)
	idx := -1
	seen := map[string]bool{}
	for sc.Scan() {
		payload, ok := ParseTLCLine(sc.Text(), "DOC")
		if !ok {
			continue
		}
		idx++
		if idx%stride != offset || seen[string(payload)] {
			continue
		}
		seen[string(payload)] = true
		d := &docCase{}
		if err := json.Unmarshal(payload, d); err != nil {
			t.Fatal(err)
		}
		sum.Behaviours++
		sum.Replays++
		sum.NonTrivial++
		tag := fmt.Sprintf("d%d", idx)
		doc, exp := renderDoc(w, d, tag)
		r := Result{Idx: idx, Adapter: "parser+http"}
		div := func(kind string, e, a any) {
			r.Divs = append(r.Divs, Divergence{Kind: kind, Adapter: "parser+http", Query: map[string]any{"doc": doc, "case": d}, Expected: e, Actual: a})
		}
		// (1) the parser itself: never a panic; a valid document yields exactly its entities
		ents, perr, pan := parseDirect(w, doc)
		sum.Checks++
		if pan != "" {
			div("parser-panic", "an error, not a panic", pan)
		} else if d.Valid {
			if perr != nil {
				div("parser-rejects-valid", "parsed", perr.Error())
			} else if !sameSeq(exp, canonAll(ents)) {
				div("parser-result", exp, canonAll(ents))
			}
		}
		// (2) through the handler into a fresh dataset
		dsName := "parse-" + tag
		if _, err := w.Dsm.CreateDataset(dsName, nil); err != nil {
			t.Fatal(err)
		}
		req := httptest.NewRequest(http.MethodPost, "/datasets/"+dsName+"/entities", strings.NewReader(doc))
		req.Header.Set("Content-Type", "application/json")
		rec := httptest.NewRecorder()
		h.ServeHTTP(rec, req)
		res, gerr := w.Dsm.GetDataset(dsName).GetEntities("", 0)
		if gerr != nil {
			t.Fatal(gerr)
		}
		stored := canonAll(res.Entities)
		sum.Checks++
		if d.Valid {
			if rec.Code != 200 {
				div("http-rejects-valid", 200, fmt.Sprintf("%d %s", rec.Code, strings.TrimSpace(rec.Body.String())))
			} else if !sameBag(exp, stored) {
				div("http-stored", exp, stored)
			}
		} else {
			if rec.Code < 400 {
				div("http-accepts-invalid", "an error status", rec.Code)
			}
			// nothing assembled from the malformed element or from what follows it; what precedes it may have been
			// flushed already (every 10 entities), entity by entity as the document denotes it
			allowed := map[string]bool{}
			if d.Ctx == "ok" || d.Ctx == "ok_default_prefix" || d.Ctx == "swapped_hub_prefixes" {
				for i := 0; i < d.Bad-1 && i < len(exp); i++ {
					allowed[exp[i].Key()] = true
				}
			}
			for _, se := range stored {
				if !allowed[se.Key()] {
					div("http-stores-from-invalid", map[string]any{"only_elements_before": d.Bad}, stored)
					break
				}
			}
		}
		// (3) what the hub serialises parses back to the same entities (entities and changes)
		if d.Valid && rec.Code == 200 {
			for _, path := range []string{"/entities", "/changes"} {
				rq := httptest.NewRequest(http.MethodGet, "/datasets/"+dsName+path, nil)
				rc := httptest.NewRecorder()
				h.ServeHTTP(rc, rq)
				back, berr, bp := parseDirect(w, rc.Body.String())
				var got []CEntity
				for _, e := range back {
					if e.ID != "@continuation" {
						got = append(got, Canon(e))
					}
				}
				sum.Checks++
				if bp != "" || berr != nil || !sameBag(stored, got) {
					div("roundtrip"+path, stored, map[string]any{"parsed": got, "err": fmt.Sprint(berr), "panic": bp, "body": rc.Body.String()})
				}
			}
			// (4) every proper prefix of a valid document is rejected without a panic
			cutStep := 1 + len(doc)/40
			if os.Getenv("VERIF_ALL_CUTS") == "1" {
				cutStep = 1
			}
			for cut := 1; cut < len(doc); cut += cutStep {
				_, terr, tp := parseDirect(w, doc[:cut])
				sum.Checks++
				if tp != "" {
					div("parser-panic", "an error, not a panic (prefix of "+fmt.Sprint(cut)+" bytes)", tp)
					break
				} else if terr == nil {
					div("parser-accepts-truncated", "an error (prefix of "+fmt.Sprint(cut)+" bytes)", "accepted")
					break
				}
			}
		}
		// (4b) grammar-level byte mutations of a valid document: replace / delete / insert one byte taken from the
		// JSON punctuation at every position.  What a mutant denotes is not known here, so only the parts of the
		// property that hold for ANY byte string are compared: no panic, and an entity is only handed over if the
		// whole element it came from was read (the parser reported no error before it)
		if d.Valid && os.Getenv("VERIF_MUTATE") == "1" && len(d.Ents) <= 2 {
			const punct = "{}[]\":,0a\\ "
			mutate := func(m string) bool {
				_, _, mp := parseDirect(w, m)
				sum.Checks++
				if mp != "" {
					div("parser-panic", "an error, not a panic (mutant "+m+")", mp)
					return false
				}
				return true
			}
		mut:
			for pos := 0; pos < len(doc); pos++ {
				if !mutate(doc[:pos] + doc[pos+1:]) {
					break
				}
				for k := 0; k < len(punct); k++ {
					if !mutate(doc[:pos]+punct[k:k+1]+doc[pos+1:]) || !mutate(doc[:pos]+punct[k:k+1]+doc[pos:]) {
						break mut
					}
				}
			}
		}
		// (5) the same content as a transaction payload: {"@context": ctx, "<dataset>": [entities]}
		if d.Cut == 0 {
			txName := "parsetx-" + tag
			if _, err := w.Dsm.CreateDataset(txName, nil); err != nil {
				t.Fatal(err)
			}
			var elems []string
			for i, e := range d.Ents {
				txt, ce := renderEnt(w, e, fmt.Sprintf("e%d-%s", i+1, tag))
				if d.Ctx == "swapped_hub_prefixes" {
					txt = swapEnt(w, e, txt, ce)
				}
				elems = append(elems, txt)
			}
			// two dataset sections when there are two or more entities: the first half goes to txName, the rest to
			// a second dataset (each section must end up with exactly its own entities)
			txName2 := ""
			split := len(elems)
			if len(elems) >= 2 {
				txName2 = "parsetx2-" + tag
				if _, err := w.Dsm.CreateDataset(txName2, nil); err != nil {
					t.Fatal(err)
				}
				split = (len(elems) + 1) / 2
			}
			txdoc := "{"
			if c := renderCtxW(w, d.Ctx); c != "" {
				txdoc += `"@context":` + c + ","
			}
			txdoc += `"` + txName + `":[` + strings.Join(elems[:split], ",") + "]"
			if txName2 != "" {
				txdoc += `,"` + txName2 + `":[` + strings.Join(elems[split:], ",") + "]"
			}
			txdoc += "}"
			func() {
				defer func() {
					if rcv := recover(); rcv != nil {
						div("txn-parser-panic", "an error, not a panic", map[string]any{"panic": fmt.Sprint(rcv), "doc": txdoc})
					}
				}()
				_, _ = server.NewEntityStreamParser(w.Store).ParseTransaction(strings.NewReader(txdoc))
			}()
			rq := httptest.NewRequest(http.MethodPost, "/transactions", strings.NewReader(txdoc))
			rq.Header.Set("Content-Type", "application/json")
			rc := httptest.NewRecorder()
			h.ServeHTTP(rc, rq)
			res2, gerr2 := w.Dsm.GetDataset(txName).GetEntities("", 0)
			if gerr2 != nil {
				t.Fatal(gerr2)
			}
			st2 := canonAll(res2.Entities)
			var st3 []CEntity
			if txName2 != "" {
				res3, gerr3 := w.Dsm.GetDataset(txName2).GetEntities("", 0)
				if gerr3 != nil {
					t.Fatal(gerr3)
				}
				st3 = canonAll(res3.Entities)
			}
			sum.Checks += 2
			if d.TxValid {
				if rc.Code != 200 {
					div("txn-rejects-valid", 200, fmt.Sprintf("%d %s doc=%s", rc.Code, strings.TrimSpace(rc.Body.String()), txdoc))
				} else if !sameBag(exp[:split], st2) {
					div("txn-stored", exp[:split], map[string]any{"section": 1, "stored": st2, "doc": txdoc})
				} else if !sameBag(exp[split:], st3) {
					div("txn-stored", exp[split:], map[string]any{"section": 2, "stored": st3, "doc": txdoc})
				}
			} else {
				st2 = append(st2, st3...)
				if rc.Code < 400 {
					div("txn-accepts-invalid", "an error status", map[string]any{"status": rc.Code, "doc": txdoc})
				}
				if len(st2) != 0 {
					div("txn-stores-from-invalid", "nothing stored", st2)
				}
			}
		}
		if len(sum.Samples) < 3 && !d.Valid && len(d.Ents) == 2 {
			sum.Samples = append(sum.Samples, map[string]any{"doc": doc, "valid": d.Valid})
		}
		if len(r.Divs) > 0 {
			sum.Diverging++
			_ = enc.Encode(r)
		}
	}
	sum.WallSeconds = time.Since(start).Seconds()
	_ = enc.Encode(sum)
	_ = bytes.MinRead
}
