package engine

import (
	"sort"
	"encoding/binary"
	"encoding/json"
	"fmt"
	"strings"

	"github.com/dgraph-io/badger/v4"
	"go.uber.org/zap"

	"github.com/mimiro-io/datahub/internal/server"
	"github.com/mimiro-io/datahub/internal/service/dataset"
)

// RelOut is one relationship query result.
type RelOut struct {
	Start string
	Pred  string
	Other *server.Entity
}

// CatEntry is what core.Dataset says about one dataset name.
type CatEntry struct {
	Name    string `json:"name"`
	Deleted bool   `json:"deleted"`
	Items   int    `json:"items"`
	Count   int    `json:"count"`
	// what does not belong into a meta-entity: properties outside the hub's dataset namespace, list-valued name / items /
	// references (two versions of the meta-entity merged into one)
	Foreign []string `json:"foreign,omitempty"`
}

// Adapter is one way of driving the hub's API.
type Adapter interface {
	Name() string
	CanAt() bool
	Exists(s *Session, real string) bool
	Store(s *Session, real string, ents []*server.Entity) error
	Txn(s *Session, m map[string][]*server.Entity) error
	Entities(s *Session, real string, from string, limit int) ([]CEntity, string, error)
	Changes(s *Session, real string, since uint64, limit int, lo bool) ([]CEntity, uint64, error)
	Lookup(s *Session, uri string, scope []string) (*server.Entity, error)
	LookupAt(s *Session, id uint64, scope []string, at int64) (*server.Entity, error)
	Related(s *Session, starts []string, pred string, inv bool, scope []string, limit int, at int64) ([]RelOut, error)
	Catalogue(s *Session) (map[string]CatEntry, error)
	DatasetNames(s *Session) ([]string, error)
}

// GoAdapter calls the exported Go API of internal/server directly.
type GoAdapter struct{}

func (GoAdapter) Name() string { return "go" }
func (GoAdapter) CanAt() bool  { return true }

func (GoAdapter) Exists(s *Session, real string) bool { return s.W.Dsm.GetDataset(real) != nil }

func (GoAdapter) Store(s *Session, real string, ents []*server.Entity) error {
	ds := s.W.Dsm.GetDataset(real)
	if ds == nil {
		return fmt.Errorf("dataset %s missing", real)
	}
	return ds.StoreEntities(ents)
}

func (GoAdapter) Txn(s *Session, m map[string][]*server.Entity) error {
	return s.W.Store.ExecuteTransaction(&server.Transaction{DatasetEntities: m})
}

func canonAll(es []*server.Entity) []CEntity {
	out := make([]CEntity, len(es))
	for i, e := range es {
		out[i] = Canon(e)
	}
	return out
}

func (GoAdapter) Entities(s *Session, real string, from string, limit int) ([]CEntity, string, error) {
	ds := s.W.Dsm.GetDataset(real)
	if ds == nil {
		return nil, "", fmt.Errorf("dataset %s missing", real)
	}
	r, err := ds.GetEntities(from, limit)
	if err != nil {
		return nil, "", err
	}
	return canonAll(r.Entities), r.ContinuationToken, nil
}

func (GoAdapter) Changes(s *Session, real string, since uint64, limit int, lo bool) ([]CEntity, uint64, error) {
	ds := s.W.Dsm.GetDataset(real)
	if ds == nil {
		return nil, 0, fmt.Errorf("dataset %s missing", real)
	}
	c, err := ds.GetChanges(since, limit, lo)
	if err != nil {
		return nil, 0, err
	}
	return canonAll(c.Entities), c.NextToken, nil
}

func (GoAdapter) Lookup(s *Session, uri string, scope []string) (*server.Entity, error) {
	return s.W.Store.GetEntity(uri, scope, true)
}

func (GoAdapter) LookupAt(s *Session, id uint64, scope []string, at int64) (*server.Entity, error) {
	return s.W.Store.GetEntityAtPointInTimeWithInternalID(id, at, s.W.Store.DatasetsToInternalIDs(scope), true)
}

func isUnknownPredicate(err error) bool {
	return err != nil && strings.Contains(err.Error(), "could not load predicate id")
}

func (GoAdapter) Related(s *Session, starts []string, pred string, inv bool, scope []string, limit int, at int64) ([]RelOut, error) {
	var out []RelOut
	add := func(rs []server.RelatedEntityResult) {
		for _, r := range rs {
			out = append(out, RelOut{Start: r.StartURI, Pred: r.PredicateURI, Other: r.RelatedEntity})
		}
	}
	var res server.RelatedEntitiesQueryResult
	var err error
	if at == 0 {
		res, err = s.W.Store.GetManyRelatedEntitiesBatch(starts, pred, inv, scope, limit, true)
	} else {
		var from []*server.RelatedFrom
		from, err = s.W.Store.ToRelatedFrom(starts, pred, inv, scope, at)
		if err == nil {
			res, err = s.W.Store.GetManyRelatedEntitiesAtTime(from, limit, true)
		}
	}
	if isUnknownPredicate(err) {
		return nil, nil
	}
	if err != nil {
		return nil, err
	}
	add(res.Relations)
	// follow continuations until exhausted (bounded)
	for i := 0; limit > 0 && len(res.Cont) > 0 && i < 200; i++ {
		res, err = s.W.Store.GetManyRelatedEntitiesAtTime(res.Cont, limit, true)
		if err != nil {
			return nil, err
		}
		add(res.Relations)
	}
	return out, nil
}

func (GoAdapter) Catalogue(s *Session) (map[string]CatEntry, error) {
	core := s.W.Dsm.GetDataset("core.Dataset")
	if core == nil {
		return nil, fmt.Errorf("core.Dataset missing")
	}
	info, err := s.W.Store.NamespaceManager.GetDatasetNamespaceInfo()
	if err != nil {
		return nil, err
	}
	out := map[string]CatEntry{}
	_, err = core.MapEntities("", 0, func(e *server.Entity) error {
		parts := strings.SplitN(e.ID, ":", 2)
		if len(parts) != 2 {
			return nil
		}
		ce := out[parts[1]]
		ce.Count++
		ce.Deleted = e.IsDeleted
		if n, ok := e.Properties[info.NameKey].(string); ok {
			ce.Name = n
		}
		if f, ok := e.Properties[info.ItemsKey].(float64); ok {
			ce.Items = int(f)
		}
		ce.Foreign = nil
		for k, v := range e.Properties {
			if _, list := v.([]interface{}); list && (k == info.ItemsKey || k == info.NameKey) {
				ce.Foreign = append(ce.Foreign, k+" is a list")
			} else if !strings.HasPrefix(k, info.DatasetPrefix+":") {
				ce.Foreign = append(ce.Foreign, k)
			}
		}
		for k, v := range e.References {
			if _, list := v.([]interface{}); list {
				ce.Foreign = append(ce.Foreign, "reference "+k+" is a list")
			}
		}
		sort.Strings(ce.Foreign)
		out[parts[1]] = ce
		return nil
	})
	return out, err
}

func (GoAdapter) DatasetNames(s *Session) ([]string, error) {
	var out []string
	for _, n := range s.W.Dsm.GetDatasetNames() {
		out = append(out, n.Name)
	}
	return out, nil
}

// compact runs deduplicating compaction synchronously.
func (s *Session) compact(real string) error {
	c := dataset.NewCompactor(s.W.Store, s.W.Dsm, zap.NewNop().Sugar())
	// flush threshold rotates over {1, 2, product default} by session
	th := []int{1, 2, 0}[s.Variant%3]
	return c.VerifCompact(real, dataset.VerifDedupStrategy(th))
}

// injectDup realises the specification's InjectDup: it leaves a version in the
// dataset that is identical to its immediate predecessor, the way older hub
// versions wrote them (same technique as the repository's compact_test.go):
// store a different version x, store the original again, then physically remove
// version x and its change-log entry.
func (s *Session) injectDup(st *Step) error {
	real := s.DsReal(st.Ds)
	ds := s.W.Dsm.GetDataset(real)
	if ds == nil {
		return fmt.Errorf("dataset %s missing", real)
	}
	cur, err := s.W.Store.GetEntity(s.EntURI(st.E), []string{real}, true)
	if err != nil || cur == nil {
		return fmt.Errorf("dup: cannot load current version: %v", err)
	}
	// content index of the current version is not needed: we re-store what is there
	orig := server.NewEntity(cur.ID, 0)
	orig.Properties, orig.References, orig.IsDeleted = cur.Properties, cur.References, cur.IsDeleted
	via := s.Concrete(st.E, st.Via)
	via.References = cur.References
	if err := ds.StoreEntities([]*server.Entity{via}); err != nil {
		return err
	}
	wm, err := ds.GetChangesWatermark()
	if err != nil {
		return err
	}
	s.tick(1, int64(via.Recorded))
	chKey := make([]byte, 22)
	binary.BigEndian.PutUint16(chKey, server.DatasetEntityChangeLog)
	binary.BigEndian.PutUint32(chKey[2:], ds.InternalID)
	binary.BigEndian.PutUint64(chKey[6:], wm-1)
	binary.BigEndian.PutUint64(chKey[14:], via.InternalID)
	db := server.NewBadgerAccess(s.W.Store, s.W.Dsm).GetDB()
	var jsonKey []byte
	if err := db.View(func(txn *badger.Txn) error {
		it, err := txn.Get(chKey)
		if err != nil {
			return err
		}
		jsonKey, err = it.ValueCopy(nil)
		return err
	}); err != nil {
		return fmt.Errorf("dup: change key: %w", err)
	}
	if err := ds.StoreEntities([]*server.Entity{orig}); err != nil {
		return err
	}
	s.ids[st.E] = orig.InternalID
	s.tick(1, int64(orig.Recorded))
	return db.Update(func(txn *badger.Txn) error {
		if err := txn.Delete(jsonKey); err != nil {
			return err
		}
		return txn.Delete(chKey)
	})
}

func mustJSON(v any) string {
	b, _ := json.Marshal(v)
	return string(b)
}

// AdapterByName returns the adapter with the given name, or nil.
func AdapterByName(n string) Adapter {
	switch n {
	case "go":
		return GoAdapter{}
	}
	return nil
}
