package engine

import (
	"bufio"
	"context"
	"encoding/base64"
	"encoding/json"
	"fmt"
	"math/rand"
	"net/http"
	"net/http/httptest"
	"os"
	"path/filepath"
	"sort"
	"strings"
	"sync"
	"testing"
	"time"

	"github.com/DataDog/datadog-go/v5/statsd"

	"github.com/mimiro-io/datahub/internal/jobs"
	"github.com/mimiro-io/datahub/internal/server"
)

type jcfg struct {
	Source    string `json:"source"`
	Transform string `json:"transform"`
	Sink      string `json:"sink"`
	Trigger   string `json:"trigger"`
	JobType   string `json:"jobType"`
	Handlers  string `json:"handlers"`
}

func b64(s string) string { return base64.StdEncoding.EncodeToString([]byte(s)) }

// buildJobConfig renders an abstract configuration as a real JobConfiguration.
func buildJobConfig(c *jcfg, id, src, src2, snk, stubURL string) *jobs.JobConfiguration {
	cfg := &jobs.JobConfiguration{ID: id, Title: id, BatchSize: 2}
	switch c.Source {
	case "DatasetSource":
		cfg.Source = map[string]interface{}{"Type": "DatasetSource", "Name": src}
	case "DatasetSourceLatest":
		cfg.Source = map[string]interface{}{"Type": "DatasetSource", "Name": src, "LatestOnly": true}
	case "UnionDatasetSource":
		cfg.Source = map[string]interface{}{"Type": "UnionDatasetSource", "DatasetSources": []interface{}{
			map[string]interface{}{"Name": src}, map[string]interface{}{"Name": src2}}}
	case "MultiSource":
		cfg.Source = map[string]interface{}{"Type": "MultiSource", "Name": src, "Dependencies": []interface{}{
			map[string]interface{}{"dataset": src2, "joins": []interface{}{
				map[string]interface{}{"dataset": src, "predicate": PredNS + "p", "inverse": true}}}}}
	case "SampleSource":
		cfg.Source = map[string]interface{}{"Type": "SampleSource", "NumberOfEntities": 6.0}
	case "SlowSource":
		cfg.Source = map[string]interface{}{"Type": "SlowSource", "Sleep": "1ms", "BatchSize": 2.0}
	case "HttpDatasetSource":
		cfg.Source = map[string]interface{}{"Type": "HttpDatasetSource", "Url": stubURL + "/source"}
	default:
		// "X~" is block X with its type and nothing else (whether that is accepted is up to the scheduler's validation)
		cfg.Source = map[string]interface{}{"Type": strings.TrimSuffix(c.Source, "~")}
	}
	js := `function transform_entities(entities) { return entities; }`
	switch c.Transform {
	case "js1":
		cfg.Transform = map[string]interface{}{"Type": "JavascriptTransform", "Code": b64(js), "Parallelism": 1.0}
	case "js3":
		cfg.Transform = map[string]interface{}{"Type": "JavascriptTransform", "Code": b64(js), "Parallelism": 3.0}
	case "js4":
		// pages of six entities over four workers: the last chunk is empty
		cfg.BatchSize = 6
		cfg.Transform = map[string]interface{}{"Type": "JavascriptTransform", "Code": b64(js), "Parallelism": 4.0}
	case "http":
		cfg.Transform = map[string]interface{}{"Type": "HttpTransform", "Url": stubURL + "/transform"}
	case "none":
	default:
		cfg.Transform = map[string]interface{}{"Type": strings.TrimSuffix(c.Transform, "~")}
	}
	switch c.Sink {
	case "DatasetSink":
		cfg.Sink = map[string]interface{}{"Type": "DatasetSink", "Name": snk}
	case "HttpDatasetSink":
		cfg.Sink = map[string]interface{}{"Type": "HttpDatasetSink", "Url": stubURL + "/sink"}
	default:
		cfg.Sink = map[string]interface{}{"Type": strings.TrimSuffix(c.Sink, "~")}
	}
	var hs jobs.ErrorHandlers
	switch c.Handlers {
	case "log":
		hs = jobs.ErrorHandlers{{Type: "log"}}
	case "logmax":
		hs = jobs.ErrorHandlers{{Type: "log", MaxItems: 1}}
	case "rerun":
		hs = jobs.ErrorHandlers{{Type: "rerun", MaxRetries: 1, RetryDelay: 1}}
	case "log+rerun":
		hs = jobs.ErrorHandlers{{Type: "log"}, {Type: "rerun", MaxRetries: 1, RetryDelay: 1}}
	case "requeue":
		hs = jobs.ErrorHandlers{{Type: "requeue"}}
	case "duplicate":
		hs = jobs.ErrorHandlers{{Type: "log"}, {Type: "log"}}
	case "bogus":
		hs = jobs.ErrorHandlers{{Type: "explode"}}
	}
	tr := jobs.JobTrigger{JobType: c.JobType, ErrorHandlers: hs}
	switch c.Trigger {
	case "cron":
		tr.TriggerType, tr.Schedule = "cron", "0 0 1 1 *"
	case "cron_bad":
		tr.TriggerType, tr.Schedule = "cron", "not a schedule"
	case "onchange":
		tr.TriggerType, tr.MonitoredDataset = "onchange", src
	case "onchange_nods":
		tr.TriggerType = "onchange"
	default:
		tr.TriggerType = c.Trigger
	}
	cfg.Triggers = []jobs.JobTrigger{tr}
	return cfg
}

// TestJobConfigs: every configuration of the box (spec/JobConfigs.tla) is offered to the real
// scheduler; each accepted one is run, as the scheduler would run it, with a healthy and with a
// failing sink.
func TestJobConfigs(t *testing.T) {
	in := os.Getenv("VERIF_TLC_OUT")
	if in == "" {
		t.Skip("VERIF_TLC_OUT not set")
	}
	start := time.Now()
	_ = os.Setenv("JOB_FULLSYNC_RETRY_INTERVAL", "40ms")
	stride, offset := envInt("VERIF_STRIDE", 1), envInt("VERIF_OFFSET", 0)
	outf, err := os.Create(os.Getenv("VERIF_RESULT"))
	if err != nil {
		t.Fatal(err)
	}
	defer outf.Close()
	out := bufio.NewWriter(outf)
	defer out.Flush()
	enc := json.NewEncoder(out)
	w, err := OpenWorld(filepath.Join(os.Getenv("VERIF_DIR"), fmt.Sprintf("jc%d", offset)))
	if err != nil {
		t.Fatal(err)
	}
	defer w.Destroy()
	failSink := false
	var mu sync.Mutex
	stub := httptest.NewServer(http.HandlerFunc(func(rw http.ResponseWriter, r *http.Request) {
		switch r.URL.Path {
		case "/source":
			ctx, _ := json.Marshal(w.Store.GetGlobalContext(false))
			if r.URL.Query().Get("since") != "" || r.URL.Query().Get("from") != "" {
				// second page: nothing more
				fmt.Fprintf(rw, `[%s,{"id":"@continuation","token":"t1"}]`, ctx)
				return
			}
			fmt.Fprintf(rw, `[%s,{"id":"%s:h1","props":{},"refs":{}},{"id":"@continuation","token":"t1"}]`, ctx, w.EntP)
		case "/transform":
			body := new(bytesBuf)
			_, _ = body.ReadFrom(r.Body)
			rw.Header().Set("Content-Type", "application/json")
			_, _ = rw.Write(body.Bytes())
		case "/sink":
			mu.Lock()
			f := failSink
			mu.Unlock()
			if f {
				http.Error(rw, "sink down", 500)
				return
			}
			rw.WriteHeader(200)
		}
	}))
	defer stub.Close()
	sum := Summary{Summary: true}
	accepted := 0
	f, err := os.Open(in)
	if err != nil {
		t.Fatal(err)
	}
	defer f.Close()
	sc := bufio.NewScanner(f)
	sc.Buffer(make([]byte, 1<<20), 1<<26)
	idx := -1
	seen := map[string]bool{}
	for sc.Scan() {
		payload, ok := ParseTLCLine(sc.Text(), "JCFG")
		if !ok {
			continue
		}
		idx++
		if idx%stride != offset || seen[string(payload)] {
			continue
		}
		seen[string(payload)] = true
		c := &jcfg{}
		if err := json.Unmarshal(payload, c); err != nil {
			t.Fatal(err)
		}
		_ = os.WriteFile(os.Getenv("VERIF_RESULT")+".cur", []byte(fmt.Sprintf("%d jobconfig jobs\n[%s]", idx, payload)), 0o644)
		sum.Behaviours++
		tag := fmt.Sprintf("k%d", idx)
		src, src2, snk := "src-"+tag, "srcb-"+tag, "snk-"+tag
		for _, n := range []string{src, src2, snk} {
			if _, err := w.Dsm.CreateDataset(n, nil); err != nil {
				t.Fatal(err)
			}
		}
		for i, n := range []string{src, src2} {
			var ents []*server.Entity
			for k := 0; k < 6; k++ {
				e := server.NewEntity(fmt.Sprintf("%s:e%d%d-%s", w.EntP, i, k, tag), 0)
				e.Properties[w.PropP+":k"] = k
				e.References[w.PredP+":p"] = fmt.Sprintf("%s:e%d%d-%s", w.EntP, 1-i, k, tag)
				ents = append(ents, e)
			}
			if err := w.Dsm.GetDataset(n).StoreEntities(ents); err != nil {
				t.Fatal(err)
			}
		}
		r := Result{Idx: idx, Adapter: "jobs"}
		for _, failing := range []bool{false, true} {
			if failing && c.Sink == "HttpDatasetSink" && os.Getenv("VERIF_HTTP_FAIL") == "" {
				continue // the HTTP sink retries a failing endpoint for seconds: thorough tier only
			}
			mu.Lock()
			failSink = failing
			mu.Unlock()
			// a run that is "still running" is only a hang if no legitimate run takes that long, on a busy machine too:
			// runs take milliseconds, except against a failing HTTP endpoint, which the sink retries for seconds per
			// request (and a log handler asks again entity by entity)
			hangAfter := 2 * time.Minute
			if failing && c.Sink == "HttpDatasetSink" {
				hangAfter = 10 * time.Minute
			}
			cfg := buildJobConfig(c, fmt.Sprintf("job-%s-%v", tag, failing), src, src2, snk, stub.URL)
			if failing && c.Sink == "DatasetSink" {
				cfg.Sink["Name"] = "missing-" + tag // a sink dataset that does not exist
			}
			hjs, err := func() (hjs []*jobs.VerifHandledJob, err error) {
				// a definition whose validation panics (a block without its name / url) is not an accepted job: over
				// HTTP the handler's recover middleware answers 500.  Nothing is required of it here.
				defer func() {
					if rc := recover(); rc != nil {
						hjs, err = nil, fmt.Errorf("validation panicked: %v", rc)
					}
				}()
				return w.Sched().VerifTriggeredJobs(cfg)
			}()
			if err != nil {
				continue // not accepted: nothing is required
			}
			accepted++
			sum.Replays++
			sum.NonTrivial++
			for _, hj := range hjs {
				done := make(chan string, 1)
				go func() { done <- hj.Run() }()
				q := map[string]any{"config": c, "failing_sink": failing}
				select {
				case p := <-done:
					sum.Checks += 3
					if p != "" {
						r.Divs = append(r.Divs, Divergence{Kind: "job-panic", Adapter: "jobs", Query: q, Expected: "run ends as success, failure or kill", Actual: p})
						continue
					}
					if _, _, has := hj.Result(); !has {
						r.Divs = append(r.Divs, Divergence{Kind: "job-result", Adapter: "jobs", Query: q, Expected: "a stored run result", Actual: "none"})
					}
					if !hj.Idle() {
						r.Divs = append(r.Divs, Divergence{Kind: "job-slot", Adapter: "jobs", Query: q, Expected: "run slot released", Actual: "still occupied"})
					}
					// a second run of the same job (incremental: nothing new to read) ends with a stored result too
					if !failing && len(r.Divs) == 0 {
						hj.ClearResult()
						done2 := make(chan string, 1)
						go func() { done2 <- hj.Run() }()
						q2 := map[string]any{"config": c, "failing_sink": failing, "run": "second"}
						select {
						case p2 := <-done2:
							sum.Checks += 2
							if p2 != "" {
								r.Divs = append(r.Divs, Divergence{Kind: "job-panic", Adapter: "jobs", Query: q2, Expected: "run ends as success, failure or kill", Actual: p2})
							} else if _, _, has := hj.Result(); !has {
								r.Divs = append(r.Divs, Divergence{Kind: "job-result", Adapter: "jobs", Query: q2, Expected: "a stored run result", Actual: "none"})
							} else if !hj.Idle() {
								r.Divs = append(r.Divs, Divergence{Kind: "job-slot", Adapter: "jobs", Query: q2, Expected: "run slot released", Actual: "still occupied"})
							}
						case <-time.After(hangAfter):
							r.Divs = append(r.Divs, Divergence{Kind: "job-hang", Adapter: "jobs", Query: q2, Expected: "the run ends", Actual: fmt.Sprintf("still running after %v", hangAfter)})
						}
					}
				case <-time.After(hangAfter):
					r.Divs = append(r.Divs, Divergence{Kind: "job-hang", Adapter: "jobs", Query: q, Expected: "the run ends", Actual: fmt.Sprintf("still running after %v", hangAfter)})
				}
			}
		}
		if len(sum.Samples) < 3 && c.Handlers != "none" && c.Transform != "none" {
			sum.Samples = append(sum.Samples, c)
		}
		if len(r.Divs) > 0 {
			sum.Diverging++
			_ = enc.Encode(r)
		}
	}
	// re-runs scheduled by reRun handlers and queued fullsync retries fire on their own timers: let
	// them finish, then leave WITHOUT closing the store (a straggler must not hit a closed database)
	time.Sleep(2500 * time.Millisecond)
	sum.Tables = []string{fmt.Sprintf("accepted=%d", accepted)}
	sum.WallSeconds = time.Since(start).Seconds()
	_ = enc.Encode(sum)
	_ = out.Flush()
	_ = outf.Close()
	os.Exit(0)
}

type bytesBuf struct{ b []byte }

func (b *bytesBuf) ReadFrom(r interface{ Read([]byte) (int, error) }) (int64, error) {
	buf := make([]byte, 4096)
	var n int64
	for {
		k, err := r.Read(buf)
		b.b = append(b.b, buf[:k]...)
		n += int64(k)
		if err != nil {
			return n, nil
		}
	}
}
func (b *bytesBuf) Bytes() []byte { return b.b }

// ---- storm ----

type stormProbe struct {
	mu     sync.Mutex
	events []map[string]any
}

func (p *stormProbe) Enter(job string, full bool) {
	g := goid()
	p.mu.Lock()
	p.events = append(p.events, map[string]any{"k": "enter", "job": job, "g": g, "full": full})
	p.mu.Unlock()
}
func (p *stormProbe) Exit(job string) {
	g := goid()
	p.mu.Lock()
	p.events = append(p.events, map[string]any{"k": "exit", "job": job, "g": g})
	p.mu.Unlock()
}

// TestJobStorm (child process): concurrent run requests of every kind on overlapping job ids.
func TestJobStorm(t *testing.T) {
	tracePath := os.Getenv("VERIF_TRACE")
	if tracePath == "" || os.Getenv("VERIF_STORM_MS") == "" {
		t.Skip("not a storm run")
	}
	_ = os.Setenv("JOB_FULLSYNC_RETRY_INTERVAL", "40ms")
	ms := envInt("VERIF_STORM_MS", 1500)
	seed := int64(envInt("VERIF_SEED", 1))
	dir := os.Getenv("VERIF_DIR")
	env := NewEnv(dir)
	env.RunnerConfig.PoolIncremental, env.RunnerConfig.PoolFull = 2, 1
	store := server.NewStore(env, &statsd.NoOpClient{})
	bus, err := server.NewBus(env)
	if err != nil {
		t.Fatal(err)
	}
	dsm := server.NewDsManager(env, store, bus)
	runner := jobs.NewRunner(env, store, nil, bus, &statsd.NoOpClient{})
	sched := jobs.NewScheduler(env, store, dsm, runner)
	for _, n := range []string{"s1", "s2", "out"} {
		if _, err := dsm.CreateDataset(n, nil); err != nil {
			t.Fatal(err)
		}
	}
	probe := &stormProbe{}
	mk := func(id, src, trigger, jobType string) *jobs.JobConfiguration {
		tr := jobs.JobTrigger{TriggerType: trigger, JobType: jobType, Schedule: "0 0 1 1 *"}
		if trigger == "onchange" {
			tr.MonitoredDataset = src
		}
		return &jobs.JobConfiguration{ID: id, Title: id, BatchSize: 2,
			Source: map[string]interface{}{"Type": "DatasetSource", "Name": src},
			Sink:   map[string]interface{}{"Type": "DatasetSink", "Name": "out"}, Triggers: []jobs.JobTrigger{tr}}
	}
	ids := []string{"j1", "j2", "j3", "j4"}
	cfgs := []*jobs.JobConfiguration{mk("j1", "s1", "cron", "incremental"), mk("j2", "s1", "onchange", "incremental"),
		mk("j3", "s2", "cron", "fullsync"), mk("j4", "s2", "onchange", "fullsync")}
	for _, c := range cfgs {
		if err := sched.VerifAddProbedJob(c, probe, 6*time.Millisecond); err != nil {
			t.Fatal(err)
		}
	}
	deadline := time.Now().Add(time.Duration(ms) * time.Millisecond)
	var wg sync.WaitGroup
	for g := 0; g < 5; g++ {
		wg.Add(1)
		go func(g int) {
			defer wg.Done()
			rnd := rand.New(rand.NewSource(seed*31 + int64(g)))
			n := 0
			for time.Now().Before(deadline) {
				n++
				id := ids[rnd.Intn(len(ids))]
				switch rnd.Intn(6) {
				case 0, 1:
					_ = sched.VerifRunProbed(id, []string{"incremental", "fullsync"}[rnd.Intn(2)], probe, 6*time.Millisecond)
				case 2:
					bus.Emit(context.Background(), "dataset."+[]string{"s1", "s2"}[rnd.Intn(2)], nil)
				case 3:
					sched.KillJob(id)
				case 4:
					e := server.NewEntity(fmt.Sprintf("ns0:x%d-%d", g, n), 0)
					name := []string{"s1", "s2"}[rnd.Intn(2)]
					_ = dsm.GetDataset(name).StoreEntities([]*server.Entity{e})
					bus.Emit(context.Background(), "dataset."+name, nil)
				case 5:
					time.Sleep(time.Duration(rnd.Intn(4)) * time.Millisecond)
				}
				time.Sleep(time.Duration(rnd.Intn(1500)) * time.Microsecond)
			}
		}(g)
	}
	wg.Wait()
	// quiescence: nothing running, retry timers drained
	quiet := 0
	for i := 0; i < 2400 && quiet < 6; i++ { // up to 60 s: a busy machine is not a hang
		time.Sleep(25 * time.Millisecond)
		if r, _, _ := sched.VerifSlots(); r == 0 {
			quiet++
		} else {
			quiet = 0
		}
	}
	running, ti, tf := sched.VerifSlots()
	var results []string
	for _, h := range sched.GetJobHistory() {
		results = append(results, h.ID)
	}
	sort.Strings(results)
	probe.mu.Lock()
	evs := append([]map[string]any{}, probe.events...)
	probe.mu.Unlock()
	evs = append(evs, map[string]any{"k": "end", "running": running, "ti": ti, "tf": tf, "results": results})
	f, err := os.Create(tracePath)
	if err != nil {
		t.Fatal(err)
	}
	defer f.Close()
	enc := json.NewEncoder(f)
	for _, e := range evs {
		_ = enc.Encode(e)
	}
	_ = sched.Stop(context.Background())
	_ = store.Close()
	_ = os.RemoveAll(dir)
}
