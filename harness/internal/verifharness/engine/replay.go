package engine

import (
	"encoding/base64"
	"encoding/json"
	"fmt"
	"net/http"
	"net/http/httptest"
	"net/url"
	"os"
	"sort"
	"strconv"
	"strings"
	"time"

	"github.com/mimiro-io/datahub/internal/jobs"
	"github.com/mimiro-io/datahub/internal/jobs/source"
	"github.com/mimiro-io/datahub/internal/server"
	"github.com/mimiro-io/datahub/internal/verifhook"
)

// Divergence is one answer of the real code the reference does not allow.
type Divergence struct {
	Kind     string `json:"kind"`
	Adapter  string `json:"adapter"`
	Query    any    `json:"query"`
	Expected any    `json:"expected"`
	Actual   any    `json:"actual"`
	Note     string `json:"note,omitempty"`
	// Alt groups the divergences of a crash result: the recovered state may be the one before OR the one after the
	// interrupted step, so the result is a violation only if EVERY alternative has a divergence that is not a listed finding
	Alt string `json:"alt,omitempty"`
}

// Session replays one behaviour inside a World.  Dataset names and entity ids get
// a per-session tag so that many behaviours can share one store.
type Session struct {
	W     *World
	H     *Header
	Tag   string
	Table Table
	Ad    Adapter

	lastBackup  *Obs
	NoAt        bool // recovered hub: no real instants are known, only "now" queries are asked
	relaxFull   *Obs // crash during compaction: the full feed may lie between this (before) and the expected (after)
	jobAdded    map[int]bool
	sink        *jobs.VerifSink
	Answers     []stepAns // answers of steps that have one of their own, in order
	bm          *server.BackupManager
	bmWorldGen  int
	Variant     int // per-behaviour variant selector (flush thresholds etc.)
	clock       int
	after       []int64           // after[k]: a real instant at which the spec clock was k
	commit      map[int]int64     // commit[k]: real commit time of the write that moved the clock to k
	ids         map[string]uint64 // abstract entity -> internal id (learned from writes)
	tokens      map[int]uint64    // reader id -> real token
	msSrc       source.Source     // MultiSource of the job while its first (full) run is read page by page
	msTok       string            // its continuation token, encoded as the pipeline stores it
	cursors     []relCursor       // relationship queries whose first page was served before the last step
	listCursors []listCursor      // entity listings whose first page was served before the last step
	Divs        []Divergence
	Checks      int // number of compared answers
	Skipped     int // queries not asked (outside what the reference defines)
	NonTriv     bool
}

func NewSession(w *World, h *Header, tag string, table Table, ad Adapter) *Session {
	s := &Session{W: w, H: h, Tag: tag, Table: table, Ad: ad,
		commit: map[int]int64{}, ids: map[string]uint64{}, tokens: map[int]uint64{}}
	s.after = []int64{spinUntilAfter(0)}
	return s
}

func (s *Session) DsReal(n string) string    { return n + "-" + s.Tag }

// An abstract entity "meta_<ds>" stands for an entity that carries the id of the hub's own meta-entity of dataset <ds>
// (a copy of the core.Dataset feed kept in an ordinary dataset, as a catalogue job would write it).
const metaEnt = "meta_"

func (s *Session) dsPrefix() string {
	info, _ := s.W.Store.NamespaceManager.GetDatasetNamespaceInfo()
	return info.DatasetPrefix
}

func (s *Session) EntCurie(e string) string {
	if strings.HasPrefix(e, metaEnt) {
		return s.dsPrefix() + ":" + s.DsReal(e[len(metaEnt):])
	}
	return s.W.EntP + ":" + e + "-" + s.Tag
}
func (s *Session) EntURI(e string) string {
	if strings.HasPrefix(e, metaEnt) {
		return "http://data.mimiro.io/core/dataset/" + s.DsReal(e[len(metaEnt):])
	}
	return EntNS + e + "-" + s.Tag
}
func (s *Session) PredCurie(p string) string { return s.W.PredP + ":" + p }
func (s *Session) PredURI(p string) string   { return PredNS + p }

func (s *Session) entAbstract(curie string) string {
	pre := s.W.EntP + ":"
	suf := "-" + s.Tag
	if strings.HasPrefix(curie, pre) && strings.HasSuffix(curie, suf) {
		return curie[len(pre) : len(curie)-len(suf)]
	}
	if dp := s.dsPrefix() + ":"; strings.HasPrefix(curie, dp) && strings.HasSuffix(curie, suf) {
		return metaEnt + curie[len(dp):len(curie)-len(suf)]
	}
	return "?" + curie
}

func (s *Session) predAbstract(curie string) string {
	pre := s.W.PredP + ":"
	if strings.HasPrefix(curie, pre) {
		return curie[len(pre):]
	}
	return "?" + curie
}

func (s *Session) scopeReal(sc []string) []string {
	out := make([]string, len(sc))
	for i, n := range sc {
		out[i] = s.DsReal(n)
	}
	return out
}

// Concrete builds the real entity for abstract entity e with content index c.
func (s *Session) Concrete(e string, c int) *server.Entity {
	ct := s.H.Contents[c-1]
	ent := server.NewEntity(s.EntCurie(e), 0)
	ent.Properties = s.Table.Props(ct.P, s.W)
	if strings.HasPrefix(e, metaEnt) {
		// a copy of the meta-entity as the feed of core.Dataset showed it some time ago
		if info, err := s.W.Store.NamespaceManager.GetDatasetNamespaceInfo(); err == nil {
			ent.Properties[info.NameKey] = s.DsReal(e[len(metaEnt):])
			ent.Properties[info.ItemsKey] = 0
			if rp, err := s.W.Store.NamespaceManager.AssertPrefixMappingForExpansion(server.RdfNamespaceExpansion); err == nil {
				ent.References[rp+":type"] = info.DatasetPrefix + ":dataset"
			}
		}
	}
	for p, rv := range ct.R {
		switch rv.K {
		case 1:
			ent.References[s.PredCurie(p)] = s.EntCurie(rv.T[0])
		case 2:
			if s.Table.Native {
				l := make([]string, len(rv.T))
				for i, t := range rv.T {
					l[i] = s.EntCurie(t)
				}
				ent.References[s.PredCurie(p)] = l
			} else {
				l := make([]any, len(rv.T))
				for i, t := range rv.T {
					l[i] = s.EntCurie(t)
				}
				ent.References[s.PredCurie(p)] = l
			}
		}
	}
	ent.IsDeleted = ct.D
	return ent
}

// Expected canonical form of (e, c).
func (s *Session) Expect(e string, c int) CEntity {
	return Canon(s.Concrete(e, c))
}

func (s *Session) batch(b []Elem) []*server.Entity {
	out := make([]*server.Entity, len(b))
	for i, x := range b {
		out[i] = s.Concrete(x.E, x.C)
	}
	return out
}

func (s *Session) learn(b []Elem, ents []*server.Entity) {
	for i, x := range b {
		if ents[i].InternalID != 0 {
			s.ids[x.E] = ents[i].InternalID
		}
	}
}

func (s *Session) tick(n int, commitAt int64) {
	for i := 0; i < n; i++ {
		s.clock++
		s.after = append(s.after, spinUntilAfter(s.after[len(s.after)-1]))
	}
	if commitAt != 0 {
		s.commit[s.clock] = commitAt
	}
	// make sure the next action's commit time is strictly later than after[clock]
	s.after[s.clock] = spinUntilAfter(s.after[s.clock])
	spinUntilAfter(s.after[s.clock])
}

func (s *Session) diverge(kind string, q, exp, act any, note string) {
	s.Divs = append(s.Divs, Divergence{Kind: kind, Adapter: s.Ad.Name(), Query: q, Expected: exp, Actual: act, Note: note})
}

// Run executes all steps, then checks the observation bundle.
func (s *Session) Run(b *Behaviour) error {
	fs := false
	for _, a := range s.H.Acts {
		if a == "http" || a == "jobsync" {
			fs = true
		}
	}
	if len(s.H.Jobs) > 0 || fs || s.H.Ms != nil {
		if err := s.preassertIDs(); err != nil {
			return err
		}
	}
	for i := range b.Steps {
		if i == len(b.Steps)-1 {
			s.openCursors(&b.Steps[i])
		}
		if err := s.Step(&b.Steps[i]); err != nil {
			// the reference enables this operation here; the hub refusing it is an answer like any other
			s.Checks++
			s.diverge("step-refused", map[string]any{"index": i, "step": b.Steps[i].A}, "the operation is accepted", err.Error(), "")
			return nil
		}
	}
	if err := s.CheckObs(&b.Obs); err != nil {
		return err
	}
	if err := s.checkCursors(&b.Obs); err != nil {
		return err
	}
	if len(b.Jobs) > 0 {
		if err := s.checkJobs(b.Jobs); err != nil {
			return err
		}
	}
	if s.lastBackup != nil {
		return s.restoreAndCheck(s.lastBackup)
	}
	return nil
}

// A relCursor is a paged relationship query (limit 1) whose first page was served BEFORE the last step of
// the behaviour and whose continuation is followed AFTER it: a client paging through an answer while the hub
// is maintained (dataset deleted, garbage collected, compacted, restarted).
type relCursor struct {
	start string
	inv   bool
	scope []string
	first []server.RelatedEntityResult
	cont  []*server.RelatedFrom
}

// A listCursor is an entity listing (pages of one) started before the last step of the behaviour.
type listCursor struct {
	ds    string
	first []CEntity
	tok   string
}

// openCursors serves the first pages.  Only before a maintenance step that does not move the clock (the
// continuation answers as of the instant of the first page; the specification's answers for that instant in
// the final state are then the ones of its current instant).
func (s *Session) openCursors(last *Step) {
	s.cursors, s.listCursors = nil, nil
	if s.Ad.Name() != "go" {
		return
	}
	// entity listings paged across a step that changes no latest view (maintenance of any dataset)
	if s.H.HasKind("ent") {
		switch last.A {
		case "gc", "compact", "lsm", "restart", "dup":
			for _, n := range s.H.Ds {
				if s.W.Dsm.GetDataset(s.DsReal(n)) == nil {
					continue
				}
				pg, tok, err := s.Ad.Entities(s, s.DsReal(n), "", 1)
				if err == nil && len(pg) == 1 {
					s.listCursors = append(s.listCursors, listCursor{ds: n, first: pg, tok: tok})
				}
			}
		}
	}
	if !s.H.HasKind("rel") {
		return
	}
	switch last.A {
	case "delete", "gc", "compact", "lsm":
	default:
		return
	}
	for _, start := range s.H.Ent {
		for _, inv := range []bool{false, true} {
			for _, sc := range Subsets(s.H.Ds) {
				live := true
				for _, n := range sc {
					if s.W.Dsm.GetDataset(s.DsReal(n)) == nil {
						live = false
					}
				}
				if !live {
					continue
				}
				res, err := s.W.Store.GetManyRelatedEntitiesBatch([]string{s.EntURI(start)}, "*", inv, s.scopeReal(sc), 1, true)
				if err != nil || len(res.Cont) == 0 {
					continue
				}
				s.cursors = append(s.cursors, relCursor{start: start, inv: inv, scope: sc, first: res.Relations, cont: res.Cont})
			}
		}
	}
}

// checkCursors follows the continuations in the final state: nothing they return may be missing from the
// answer the specification gives for the same query now (the scope reduced to the datasets that still exist).
func (s *Session) checkCursors(o *Obs) error {
	// listings: first page before the step + the continued pages after it = the listing the reference requires now
	em := o.EntMap()
	for _, c := range s.listCursors {
		expEl, live := em[c.ds]
		if !live || !contains(o.Names, c.ds) {
			continue
		}
		exp := s.expectItems(expEl)
		all := append([]CEntity{}, c.first...)
		tok := c.tok
		for i := 0; i < len(exp)+3; i++ {
			pg, next, err := s.Ad.Entities(s, s.DsReal(c.ds), tok, 1)
			if err != nil {
				return err
			}
			if len(pg) == 0 {
				break
			}
			all = append(all, pg...)
			tok = next
		}
		s.Checks++
		if !sameBag(exp, all) {
			s.diverge("entities-continued", map[string]any{"ds": c.ds, "paged": "first page before the last step, continuation after it"}, exp, all, "")
		}
	}
	if len(s.cursors) == 0 {
		return nil
	}
	tab := map[relKey][]Pair{}
	for _, r := range o.Rel {
		tab[relKey{r.S, r.P, r.Inv, scopeKey(r.Sc), r.T}] = r.Pairs
	}
	for _, c := range s.cursors {
		var sc []string
		for _, n := range c.scope {
			if contains(o.Names, n) {
				sc = append(sc, n)
			}
		}
		allowed := map[string]bool{}
		if len(c.scope) == 0 || len(sc) > 0 {
			for _, x := range pairSet(tab[relKey{c.start, "*", c.inv, scopeKey(sc), o.Clock}]) {
				allowed[x] = true
			}
		}
		cont := c.cont
		var got []string
		for i := 0; len(cont) > 0 && i < 50; i++ {
			res, err := s.W.Store.GetManyRelatedEntitiesAtTime(cont, 1, true)
			if err != nil {
				return err
			}
			for _, x := range res.Relations {
				got = append(got, s.predAbstract(x.PredicateURI)+">"+s.entAbstract(x.RelatedEntity.ID))
			}
			cont = res.Cont
		}
		s.Checks++
		q := map[string]any{"start": c.start, "pred": "*", "inverse": c.inv, "scope": c.scope, "t": o.Clock, "paged": "first page before the last step, continuation after it"}
		for _, g := range got {
			if !allowed[g] {
				var exp []string
				for k := range allowed {
					exp = append(exp, k)
				}
				sort.Strings(exp)
				s.diverge("related-continued", q, map[string]any{"subset_of": exp}, got, "continuation")
				break
			}
		}
	}
	return nil
}

// Step executes one action of the behaviour on the real hub.
func (s *Session) Step(st *Step) error {
	switch st.A {
	case "store":
		ents := s.batch(st.B)
		if err := s.Ad.Store(s, s.DsReal(st.Ds), ents); err != nil {
			return err
		}
		s.learn(st.B, ents)
		var at int64
		if len(ents) > 0 {
			at = int64(ents[0].Recorded)
		}
		s.tick(1, at)
		s.NonTriv = true
	case "reject":
		// the valid elements followed by one the hub cannot store: the whole batch must be refused
		ents := s.batch(st.B)
		poison := server.NewEntity(s.EntCurie(fmt.Sprintf("poison%d", len(s.Divs)+s.clock)), 0)
		poison.References[s.PredCurie("p")] = nil
		err := s.Ad.Store(s, s.DsReal(st.Ds), append(ents, poison))
		s.Checks++
		if err == nil {
			s.diverge("reject", map[string]any{"ds": st.Ds, "b": st.B}, "the batch is refused (null reference)", "accepted", "")
		}
		s.NonTriv = true
	case "txn":
		m := map[string][]*server.Entity{}
		var first *server.Entity
		for _, part := range st.M {
			ents := s.batch(part.B)
			m[s.DsReal(part.Ds)] = ents
			if first == nil && len(ents) > 0 {
				first = ents[0]
			}
		}
		if err := s.Ad.Txn(s, m); err != nil {
			return err
		}
		for _, part := range st.M {
			s.learn(part.B, m[s.DsReal(part.Ds)])
		}
		var at int64
		if first != nil {
			at = int64(first.Recorded)
		}
		s.tick(1, at)
		s.NonTriv = true
	case "tick":
		s.tick(1, 0)
	case "create":
		// every other behaviour creates its datasets with public namespaces (a creation-time setting that is
		// written back through core.Dataset): no answer of the reference depends on it
		var cfg *server.CreateDatasetConfig
		if s.Variant%2 == 1 {
			cfg = &server.CreateDatasetConfig{PublicNamespaces: []string{EntNS, PropNS}}
		}
		if _, err := s.W.Dsm.CreateDataset(s.DsReal(st.Ds), cfg); err != nil {
			return err
		}
		s.tick(1, 0)
		s.NonTriv = true
	case "delete":
		if err := s.W.Dsm.DeleteDataset(s.DsReal(st.Ds)); err != nil {
			return err
		}
		s.tick(1, 0)
		s.NonTriv = true
	case "rename":
		if _, err := s.W.Dsm.UpdateDataset(s.DsReal(st.Ds), &server.UpdateDatasetConfig{ID: s.DsReal(st.To)}); err != nil {
			return err
		}
		s.tick(1, 0)
		s.NonTriv = true
	case "gc":
		gc := server.NewGarbageCollector(s.W.Store, s.W.Env)
		if err := gc.Cleandeleted(); err != nil {
			return err
		}
		s.NonTriv = true
	case "restart":
		if err := s.W.Restart(); err != nil {
			return err
		}
		s.NonTriv = true
	case "lsm":
		// environment step: badger compacts its LSM tree (no hub API involved).  Eight small tables are
		// produced by private writes + restarts, the background compactors merge them.
		for i := 0; i < 8; i++ {
			if err := s.W.Store.StoreObject(server.JobDataIndex, "verif-lsm-filler", i); err != nil {
				return err
			}
			if err := s.W.Restart(); err != nil {
				return err
			}
		}
		s.W.Store.VerifLsmCompact()
		s.NonTriv = true
	case "compact":
		if err := s.compact(s.DsReal(st.Ds)); err != nil {
			return err
		}
		s.NonTriv = true
	case "race":
		// a writer whose batch lands after the compactor has read the history and before its (first) flush: the
		// write is performed at the compactor's flush point, in the compactor's goroutine (deterministic gate)
		// The writer runs in its own goroutine, started when the compactor reaches its (first) flush point; the
		// compactor waits there up to 100 ms for the write to be acknowledged.  If the hub lets the write through
		// it has landed inside the compaction; if the hub makes the writer wait (a lock), the compactor goes on
		// and the write completes afterwards.  Either way it must be acknowledged and nothing may be lost.
		ents := s.batch(st.B)
		wdone := make(chan error, 1)
		started := false
		verifhook.SetHandler(func(id, arg string) {
			if id == "compact.flush" && !started {
				started = true
				go func() { wdone <- s.Ad.Store(s, s.DsReal(st.Ds), ents) }()
				select {
				case err := <-wdone:
					wdone <- err
				case <-time.After(100 * time.Millisecond):
				}
			}
		})
		cerr := s.compact(s.DsReal(st.Ds))
		verifhook.SetHandler(nil)
		if cerr != nil {
			return cerr
		}
		if !started {
			return fmt.Errorf("race: the compactor never reached its flush point")
		}
		select {
		case werr := <-wdone:
			if werr != nil {
				return werr
			}
		case <-time.After(20 * time.Second):
			return fmt.Errorf("race: the write was not acknowledged within 20 s after the compaction ended")
		}
		s.learn(st.B, ents)
		var at int64
		if len(ents) > 0 {
			at = int64(ents[0].Recorded)
		}
		s.tick(1, at)
		s.NonTriv = true
	case "dup":
		if err := s.injectDup(st); err != nil {
			return err
		}
		s.NonTriv = true
	case "backup":
		if err := s.backup(); err != nil {
			return err
		}
		s.lastBackup = st.Obs
		s.NonTriv = true
	case "foreign":
		if err := s.foreignBackup(); err != nil {
			return err
		}
	case "http", "expire", "jobstart", "jobbatch", "jobend":
		ans, err := s.fullSyncStep(st)
		if err != nil {
			return err
		}
		s.Answers = append(s.Answers, stepAns{st, ans})
		if ok, exp, act := compareAnswer(st, st.X, ans); !ok {
			s.Checks++
			s.diverge("step-answer", map[string]any{"index": len(s.Answers) - 1, "step": st.A, "id": st.ID, "start": st.Start, "end": st.End, "b": st.B}, exp, act, "")
		}
		return nil
	case "fsstart", "fspage", "fsend":
		if err := s.msFullSyncStep(st); err != nil {
			return err
		}
	case "catchup":
		return s.catchUp(st)
	case "job":
		return s.runJob(st)
	case "read":
		return s.readPage(st)
	default:
		return fmt.Errorf("unknown action %q", st.A)
	}
	return nil
}

func (s *Session) readPage(st *Step) error {
	r := st.R
	tok := s.tokens[r.ID]
	items, next, err := s.Ad.Changes(s, s.DsReal(r.Ds), tok, r.Lim, r.Lo)
	if err != nil {
		return err
	}
	s.tokens[r.ID] = next
	s.Checks++
	exp := s.expectItems(st.Page.Items)
	if !sameSeq(exp, items) || next != st.Page.Next || tok != st.Since {
		s.diverge("read", map[string]any{"reader": r, "since": st.Since, "realSince": tok},
			map[string]any{"items": exp, "next": st.Page.Next}, map[string]any{"items": items, "next": next}, "")
	}
	return nil
}

func (s *Session) expectItems(items []Elem) []CEntity {
	out := make([]CEntity, len(items))
	for i, x := range items {
		out[i] = s.Expect(x.E, x.C)
	}
	return out
}

func sameSeq(a, b []CEntity) bool {
	if len(a) != len(b) {
		return false
	}
	for i := range a {
		if a[i].Key() != b[i].Key() {
			return false
		}
	}
	return true
}

// isSubseq reports whether a is a subsequence of b.
func isSubseq(a, b []CEntity) bool {
	i := 0
	for _, x := range b {
		if i < len(a) && a[i].Key() == x.Key() {
			i++
		}
	}
	return i == len(a)
}

func sameBag(a, b []CEntity) bool {
	if len(a) != len(b) {
		return false
	}
	ka := make([]string, len(a))
	kb := make([]string, len(b))
	for i := range a {
		ka[i] = a[i].Key()
		kb[i] = b[i].Key()
	}
	sort.Strings(ka)
	sort.Strings(kb)
	for i := range ka {
		if ka[i] != kb[i] {
			return false
		}
	}
	return true
}

func contains(l []string, x string) bool {
	for _, y := range l {
		if y == x {
			return true
		}
	}
	return false
}

// CheckObs asks every read API of the configured kinds and compares with obs.
func (s *Session) CheckObs(o *Obs) error {
	if o.Clock != s.clock {
		return fmt.Errorf("harness clock %d differs from specification clock %d", s.clock, o.Clock)
	}
	if s.H.HasKind("ent") {
		if err := s.checkEntities(o); err != nil {
			return err
		}
	}
	if s.H.HasKind("chg") {
		if err := s.checkChanges(o); err != nil {
			return err
		}
	}
	if s.H.HasKind("look") {
		if err := s.checkLookups(o); err != nil {
			return err
		}
	}
	if s.H.HasKind("rel") {
		if err := s.checkRelated(o); err != nil {
			return err
		}
		if err := s.checkRelatedMulti(o); err != nil {
			return err
		}
	}
	if s.H.HasKind("cat") {
		if err := s.checkCatalogue(o); err != nil {
			return err
		}
	}
	return nil
}

func (s *Session) checkEntities(o *Obs) error {
	em := o.EntMap()
	for _, n := range s.H.Ds {
		real := s.DsReal(n)
		expEl, live := em[n]
		if !contains(o.Names, n) {
			live = false
		}
		exists := s.Ad.Exists(s, real)
		s.Checks++
		if exists != live {
			s.diverge("exists", map[string]any{"ds": n}, live, exists, "")
			continue
		}
		if !live {
			continue
		}
		exp := s.expectItems(expEl)
		got, _, err := s.Ad.Entities(s, real, "", 0)
		if err != nil {
			return err
		}
		s.Checks++
		if !sameBag(exp, got) {
			s.diverge("entities", map[string]any{"ds": n}, exp, got, "")
			continue
		}
		// paging: every constant page size 1..n+1, following the returned tokens
		for size := 1; size <= len(exp)+1; size++ {
			if size > 2 && size < len(exp) {
				continue
			}
			var all []CEntity
			tok := ""
			pages := 0
			for {
				pg, next, err := s.Ad.Entities(s, real, tok, size)
				if err != nil {
					return err
				}
				pages++
				if len(pg) > size {
					s.diverge("entities-page", map[string]any{"ds": n, "size": size}, "at most size items per page", pg, "")
				}
				all = append(all, pg...)
				tok = next
				if len(pg) == 0 || pages > len(exp)+3 {
					break
				}
			}
			s.Checks++
			if !sameBag(exp, all) {
				s.diverge("entities-paged", map[string]any{"ds": n, "size": size}, exp, all, "")
				break
			}
		}
		// the same listing through GET /datasets/{ds}/entities?from=&limit= (unpaged, pages of 1 and of 2)
		if os.Getenv("VERIF_HTTP_CHG") != "0" && s.Ad.Name() == "go" {
			for _, size := range []int{0, 1, 2} {
				got, err := s.httpWalk("/datasets/"+real+"/entities", "from", size, false, false, len(exp)+3)
				if err != nil {
					return err
				}
				s.Checks++
				if !sameBag(exp, got) {
					s.diverge("entities-http-walk", map[string]any{"ds": n, "limit": size}, exp, got, "")
					break
				}
			}
		}
	}
	return nil
}

type chgKey struct {
	ds    string
	since uint64
	lim   int
	lo    bool
}

func (s *Session) checkChanges(o *Obs) error {
	tab := map[chgKey]Page{}
	maxNext := map[string]uint64{}
	for _, c := range o.Chg {
		tab[chgKey{c.Ds, c.Since, c.Lim, c.Lo}] = c.Pg
		if c.Pg.Next > maxNext[c.Ds] {
			maxNext[c.Ds] = c.Pg.Next
		}
	}
	for _, n := range o.Names {
		real := s.DsReal(n)
		if !s.Ad.Exists(s, real) {
			s.Checks++
			s.diverge("exists", map[string]any{"ds": n}, true, false, "changes")
			continue
		}
		for _, lo := range []bool{false, true} {
			for _, lim := range s.H.Limits {
				for since := uint64(0); since <= maxNext[n]+2; since++ {
					pg, ok := tab[chgKey{n, since, lim, lo}]
					if !ok {
						pg = Page{Next: since}
					}
					items, next, err := s.Ad.Changes(s, real, since, lim, lo)
					if err != nil {
						return err
					}
					s.Checks++
					exp := s.expectItems(pg.Items)
					if s.relaxFull != nil && lo {
						// interrupted compaction: the newest version of an already compacted entity has moved
						// to an earlier position, of the others not yet: judged as a collection
						if since == 0 && lim == 0 && !sameBag(exp, items) {
							s.diverge("changes", map[string]any{"ds": n, "since": 0, "limit": 0, "latestOnly": true, "mode": "interrupted compaction"},
								map[string]any{"as-collection": exp}, items, "")
						}
						continue
					}
					if s.relaxFull != nil && !lo {
						// interrupted compaction: only the unpaged full feed is judged, and it may still hold
						// duplicates that the completed compaction would have removed
						if since == 0 && lim == 0 {
							var before []CEntity
							for _, c := range s.relaxFull.Chg {
								if c.Ds == n && c.Since == 0 && c.Lim == 0 && !c.Lo {
									before = s.expectItems(c.Pg.Items)
								}
							}
							if !isSubseq(exp, items) || !isSubseq(items, before) {
								s.diverge("changes", map[string]any{"ds": n, "since": 0, "limit": 0, "latestOnly": false, "mode": "interrupted compaction"},
									map[string]any{"at-least": exp, "at-most": before}, items, "")
							}
						}
						continue
					}
					if !sameSeq(exp, items) || next != pg.Next {
						s.diverge("changes", map[string]any{"ds": n, "since": since, "limit": lim, "latestOnly": lo},
							map[string]any{"items": exp, "next": pg.Next}, map[string]any{"items": items, "next": next}, "")
					}
				}
				// token walk with this limit from 0: concatenation equals the unpaged answer
				if lim > 0 && s.relaxFull == nil {
					full := tab[chgKey{n, 0, 0, lo}]
					var all []CEntity
					tok := uint64(0)
					for i := 0; i < len(full.Items)+3; i++ {
						items, next, err := s.Ad.Changes(s, real, tok, lim, lo)
						if err != nil {
							return err
						}
						all = append(all, items...)
						if len(items) == 0 {
							if next != tok {
								s.diverge("changes-walk", map[string]any{"ds": n, "limit": lim, "latestOnly": lo, "token": tok},
									"token at end returns itself", next, "")
							}
							break
						}
						tok = next
					}
					s.Checks++
					if exp := s.expectItems(full.Items); !sameSeq(exp, all) {
						s.diverge("changes-walk", map[string]any{"ds": n, "limit": lim, "latestOnly": lo}, exp, all, "")
					}
				}
				// the same walks through GET /datasets/{ds}/changes (forward, and newest-first with reverse=true)
				if s.relaxFull == nil && os.Getenv("VERIF_HTTP_CHG") != "0" {
					full := s.expectItems(tab[chgKey{n, 0, 0, lo}].Items)
					if lo && s.jsQueries() {
						// the JavaScript helper GetDatasetChanges (latest-only by definition), walked inside one script
						code := fmt.Sprintf(`function do_query() {
							var tok = 0;
							for (var i = 0; i < %d; i++) {
								var c = GetDatasetChanges(%q, tok, %d);
								if (c == null || c.Entities == null || c.Entities.length == 0) { break; }
								for (var k = 0; k < c.Entities.length; k++) { WriteQueryResult({e: c.Entities[k]}); }
								tok = c.NextToken;
							}
						}`, len(full)+3, real, lim)
						elems, jerr := s.postJS(code)
						if jerr != nil {
							return jerr
						}
						var got []CEntity
						for _, raw := range elems {
							var row struct {
								E *server.Entity `json:"e"`
							}
							if err := json.Unmarshal(raw, &row); err != nil {
								return err
							}
							got = append(got, Canon(row.E))
						}
						s.Checks++
						if !sameSeq(full, got) {
							s.diverge("changes-js-walk", map[string]any{"ds": n, "limit": lim, "latestOnly": true}, full, got, "")
						}
					}
					// JSON-LD output of the same feed (Accept: application/ld+json): the sequence of ids
					{
						ids, err := s.httpChangesWalkLD(real, lim, lo, len(full)+3)
						if err != nil {
							return err
						}
						var expIDs []string
						for _, e := range full {
							expIDs = append(expIDs, e.ID)
						}
						s.Checks++
						if strings.Join(ids, ",") != strings.Join(expIDs, ",") {
							s.diverge("changes-jsonld-walk", map[string]any{"ds": n, "limit": lim, "latestOnly": lo}, expIDs, ids, "")
						}
					}
					for _, reverse := range []bool{false, true} {
						if reverse && lo {
							continue // the handler's newest-first branch has no latest-only form
						}
						got, err := s.httpChangesWalk(real, lim, lo, reverse, len(full)+3)
						if err != nil {
							return err
						}
						exp := full
						if reverse {
							exp = make([]CEntity, len(full))
							for i := range full {
								exp[len(full)-1-i] = full[i]
							}
						}
						s.Checks++
						if !sameSeq(exp, got) {
							s.diverge("changes-http-walk", map[string]any{"ds": n, "limit": lim, "latestOnly": lo, "reverse": reverse}, exp, got, "")
						}
					}
				}
			}
		}
	}
	return nil
}

// httpQueries: ask the "now" lookups and relationship queries through POST /query as well (go adapter sessions
// of the replay worker; not in recovered-hub sessions, where the web service of the world is not rebuilt)
func (s *Session) httpQueries() bool {
	// every third behaviour (the handler adds encoding and paging around the same store calls)
	return os.Getenv("VERIF_HTTP_QUERY") != "0" && s.Ad.Name() == "go" && !s.NoAt && s.Variant%3 == 0
}

// jsQueries: ask through the JavaScript helpers Query / PagedQuery / FindById (a javascript query posted to
// POST /query), in the behaviours the HTTP variant does not take
func (s *Session) jsQueries() bool {
	return os.Getenv("VERIF_JS_QUERY") != "0" && s.Ad.Name() == "go" && !s.NoAt && s.Variant%3 == 1
}

func (s *Session) postJS(code string) ([]json.RawMessage, error) {
	h, err := s.W.Web()
	if err != nil {
		return nil, err
	}
	raw, _ := json.Marshal(map[string]string{"query": base64.StdEncoding.EncodeToString([]byte(code))})
	req := httptest.NewRequest(http.MethodPost, "/query", strings.NewReader(string(raw)))
	req.Header.Set("Content-Type", "application/x-javascript-query")
	rec := httptest.NewRecorder()
	h.ServeHTTP(rec, req)
	if rec.Code != 200 {
		return nil, fmt.Errorf("POST /query (javascript): %d %s", rec.Code, rec.Body.String())
	}
	var elems []json.RawMessage
	if err := json.Unmarshal(rec.Body.Bytes(), &elems); err != nil {
		return nil, fmt.Errorf("POST /query (javascript): %w (%s)", err, rec.Body.String())
	}
	return elems, nil
}

func jsStrings(xs []string) string {
	b, _ := json.Marshal(xs)
	if xs == nil {
		return "[]"
	}
	return string(b)
}

func (s *Session) jsLookup(uri string, scope []string) (*server.Entity, error) {
	code := fmt.Sprintf(`function do_query() { var e = FindById(%q, %s); WriteQueryResult({found: e}); }`, uri, jsStrings(scope))
	elems, err := s.postJS(code)
	if err != nil || len(elems) != 1 {
		return nil, err
	}
	var out struct {
		Found *server.Entity `json:"found"`
	}
	if err := json.Unmarshal(elems[0], &out); err != nil {
		return nil, err
	}
	return out.Found, nil
}

// jsRelated: pageSize 0 uses Query (one call), otherwise PagedQuery with that page size.
func (s *Session) jsRelated(start, pred string, inv bool, scope []string, pageSize int) ([]RelOut, error) {
	var code string
	if pageSize == 0 {
		code = fmt.Sprintf(`function do_query() {
			var r = Query([%q], %q, %v, %s);
			if (r == null) { return; }
			for (var i = 0; i < r.length; i++) { WriteQueryResult({s: r[i][0], p: r[i][1], o: r[i][2]}); }
		}`, start, pred, inv, jsStrings(scope))
	} else {
		code = fmt.Sprintf(`function do_query() {
			PagedQuery({StartURIs: [%q], Via: %q, Inverse: %v, Datasets: %s}, %d, function(rs) {
				for (var i = 0; i < rs.length; i++) { WriteQueryResult({s: rs[i].StartURI, p: rs[i].PredicateURI, o: rs[i].RelatedEntity}); }
				return true;
			});
		}`, start, pred, inv, jsStrings(scope), pageSize)
	}
	elems, err := s.postJS(code)
	if err != nil {
		return nil, err
	}
	var out []RelOut
	for _, raw := range elems {
		var row struct {
			S string         `json:"s"`
			P string         `json:"p"`
			O *server.Entity `json:"o"`
		}
		if err := json.Unmarshal(raw, &row); err != nil {
			return nil, err
		}
		out = append(out, RelOut{Start: row.S, Pred: row.P, Other: row.O})
	}
	return out, nil
}

func (s *Session) postQuery(body map[string]any) ([]json.RawMessage, error) {
	h, err := s.W.Web()
	if err != nil {
		return nil, err
	}
	raw, _ := json.Marshal(body)
	req := httptest.NewRequest(http.MethodPost, "/query", strings.NewReader(string(raw)))
	req.Header.Set("Content-Type", "application/json")
	rec := httptest.NewRecorder()
	h.ServeHTTP(rec, req)
	if rec.Code != 200 {
		if strings.Contains(rec.Body.String(), "could not load predicate id") {
			return nil, nil
		}
		return nil, fmt.Errorf("POST /query %s: %d %s", raw, rec.Code, rec.Body.String())
	}
	var elems []json.RawMessage
	if err := json.Unmarshal(rec.Body.Bytes(), &elems); err != nil {
		return nil, fmt.Errorf("POST /query: %w (%s)", err, rec.Body.String())
	}
	return elems, nil
}

func (s *Session) httpLookup(uri string, scope []string) (*server.Entity, error) {
	body := map[string]any{"entityId": uri}
	if len(scope) > 0 {
		body["datasets"] = scope
	}
	elems, err := s.postQuery(body)
	if err != nil || len(elems) < 2 {
		return nil, err
	}
	e := &server.Entity{}
	if err := json.Unmarshal(elems[1], e); err != nil {
		return nil, err
	}
	if e.Properties == nil && e.References == nil {
		return nil, nil // the handler's EmptyEntity
	}
	return e, nil
}

// httpRelated pages through POST /query with the handler's base64 continuations.
func (s *Session) httpRelated(start, pred string, inv bool, scope []string, limit int) ([]RelOut, error) {
	return s.httpRelatedMany([]string{start}, pred, inv, scope, limit)
}

func (s *Session) httpRelatedMany(starts []string, pred string, inv bool, scope []string, limit int) ([]RelOut, error) {
	body := map[string]any{"startingEntities": starts, "predicate": pred, "inverse": inv}
	if len(scope) > 0 {
		body["datasets"] = scope
	}
	if limit > 0 {
		body["limit"] = limit
	}
	var out []RelOut
	for page := 0; page < 200; page++ {
		elems, err := s.postQuery(body)
		if err != nil || len(elems) < 2 {
			return out, err
		}
		var rows [][]json.RawMessage
		if err := json.Unmarshal(elems[1], &rows); err != nil {
			return nil, err
		}
		for _, row := range rows {
			if len(row) != 3 {
				return nil, fmt.Errorf("POST /query: row of %d elements", len(row))
			}
			var st, pr string
			_ = json.Unmarshal(row[0], &st)
			_ = json.Unmarshal(row[1], &pr)
			e := &server.Entity{}
			if err := json.Unmarshal(row[2], e); err != nil {
				return nil, err
			}
			out = append(out, RelOut{Start: st, Pred: pr, Other: e})
		}
		var conts []string
		if len(elems) > 2 {
			_ = json.Unmarshal(elems[2], &conts)
		}
		if limit == 0 || len(conts) == 0 {
			break
		}
		body = map[string]any{"continuations": conts, "limit": limit}
	}
	return out, nil
}

// httpChangesWalk reads a change feed through the HTTP handler page by page, following the continuation
// tokens, until a page brings no entity (forward) or no token (reverse).
func (s *Session) httpChangesWalk(real string, lim int, lo, reverse bool, maxPages int) ([]CEntity, error) {
	return s.httpWalk("/datasets/"+real+"/changes", "since", lim, lo, reverse, maxPages)
}

// httpChangesWalkLD reads the change feed as JSON-LD and returns the @id of every entity in order.
func (s *Session) httpChangesWalkLD(real string, lim int, lo bool, maxPages int) ([]string, error) {
	h, err := s.W.Web()
	if err != nil {
		return nil, err
	}
	var ids []string
	tok := ""
	for i := 0; i < maxPages+1; i++ {
		q := url.Values{}
		if lim > 0 {
			q.Set("limit", strconv.Itoa(lim))
		}
		if lo {
			q.Set("latestOnly", "true")
		}
		if tok != "" {
			q.Set("since", tok)
		}
		req := httptest.NewRequest(http.MethodGet, "/datasets/"+real+"/changes?"+q.Encode(), nil)
		req.Header.Set("Accept", "application/ld+json")
		rec := httptest.NewRecorder()
		h.ServeHTTP(rec, req)
		if rec.Code != 200 {
			return nil, fmt.Errorf("GET changes (json-ld): %d %s", rec.Code, rec.Body.String())
		}
		var elems []map[string]json.RawMessage
		if err := json.Unmarshal(rec.Body.Bytes(), &elems); err != nil {
			return nil, fmt.Errorf("GET changes (json-ld): %w (%s)", err, rec.Body.String())
		}
		n, next := 0, ""
		for _, el := range elems {
			if raw, ok := el["core:token"]; ok {
				_ = json.Unmarshal(raw, &next)
				continue
			}
			if raw, ok := el["@id"]; ok {
				var id string
				_ = json.Unmarshal(raw, &id)
				ids = append(ids, id)
				n++
			}
		}
		if n == 0 || next == "" || lim == 0 {
			break
		}
		tok = next
	}
	return ids, nil
}

// httpWalk pages through GET <path> (changes: token parameter "since"; entities: "from").
func (s *Session) httpWalk(path, tokParam string, lim int, lo, reverse bool, maxPages int) ([]CEntity, error) {
	h, err := s.W.Web()
	if err != nil {
		return nil, err
	}
	var all []CEntity
	tok := ""
	for i := 0; i < maxPages+1; i++ {
		q := url.Values{}
		if lim > 0 {
			q.Set("limit", strconv.Itoa(lim))
		}
		if lo {
			q.Set("latestOnly", "true")
		}
		if reverse {
			q.Set("reverse", "true")
		}
		if tok != "" {
			q.Set(tokParam, tok)
		}
		req := httptest.NewRequest(http.MethodGet, path+"?"+q.Encode(), nil)
		rec := httptest.NewRecorder()
		h.ServeHTTP(rec, req)
		if rec.Code != 200 {
			return nil, fmt.Errorf("GET %s: %d %s", path, rec.Code, rec.Body.String())
		}
		var elems []json.RawMessage
		if err := json.Unmarshal(rec.Body.Bytes(), &elems); err != nil {
			return nil, fmt.Errorf("GET changes: %w (%s)", err, rec.Body.String())
		}
		n, next := 0, ""
		for _, raw := range elems {
			var head struct {
				ID    string `json:"id"`
				Token string `json:"token"`
			}
			_ = json.Unmarshal(raw, &head)
			switch head.ID {
			case "@context":
			case "@continuation":
				next = head.Token
			default:
				e := &server.Entity{}
				if err := json.Unmarshal(raw, e); err != nil {
					return nil, err
				}
				all = append(all, Canon(e))
				n++
			}
		}
		if n == 0 || next == "" || (lim == 0 && !reverse) {
			break
		}
		tok = next
	}
	return all, nil
}

// instants returns the real instants at which spec instant t can be asked.
func (s *Session) instants(t int) []int64 {
	out := []int64{s.after[t]}
	if c, ok := s.commit[t]; ok && c != 0 {
		out = append(out, c)
	}
	if c, ok := s.commit[t+1]; ok && c != 0 {
		out = append(out, c-1)
	}
	return out
}

func (s *Session) scopeLive(o *Obs, sc []string) bool {
	for _, n := range sc {
		if !contains(o.Names, n) {
			return false
		}
	}
	return true
}

func (s *Session) specInstants(o *Obs) []int {
	if s.H.HasKind("past") {
		out := make([]int, 0, o.Clock+1)
		for t := 0; t <= o.Clock; t++ {
			out = append(out, t)
		}
		return out
	}
	return []int{o.Clock}
}

type lookKey struct {
	e, sc string
	t     int
}

func (s *Session) checkLookups(o *Obs) error {
	tab := map[lookKey]LookObs{}
	for _, l := range o.Look {
		tab[lookKey{l.E, scopeKey(l.Sc), l.T}] = l
	}
	for _, e := range s.H.Ent {
		for _, sc := range Subsets(s.H.Ds) {
			if !s.scopeLive(o, sc) {
				s.Skipped++
				continue
			}
			for _, t := range s.specInstants(o) {
				exp := tab[lookKey{e, scopeKey(sc), t}]
				exp.E, exp.Sc, exp.T = e, sc, t
				var got []*server.Entity
				var how []string
				if t == o.Clock {
					ent, err := s.Ad.Lookup(s, s.EntURI(e), s.scopeReal(sc))
					if err != nil {
						return err
					}
					got = append(got, ent)
					how = append(how, "now")
					if s.jsQueries() {
						jent, jerr := s.jsLookup(s.EntURI(e), s.scopeReal(sc))
						if jerr != nil {
							return jerr
						}
						got = append(got, jent)
						how = append(how, "js FindById")
					}
					if s.httpQueries() {
						hent, herr := s.httpLookup(s.EntURI(e), s.scopeReal(sc))
						if herr != nil {
							return herr
						}
						got = append(got, hent)
						how = append(how, "POST /query")
					}
				}
				if id, ok := s.ids[e]; ok && s.Ad.CanAt() && !s.NoAt {
					for _, at := range s.instants(t) {
						ent, err := s.Ad.LookupAt(s, id, s.scopeReal(sc), at)
						if err != nil {
							return err
						}
						got = append(got, ent)
						how = append(how, fmt.Sprintf("at=%d", at))
					}
				}
				for i, ent := range got {
					s.Checks++
					s.compareLookup(exp, ent, how[i])
				}
			}
		}
	}
	return nil
}

func (s *Session) compareLookup(exp LookObs, ent *server.Entity, how string) {
	q := map[string]any{"ent": exp.E, "scope": exp.Sc, "t": exp.T, "how": how}
	act := Canon(ent)
	if len(exp.Parts) == 0 {
		// nothing live: empty entity (nil == empty); the deleted flag must be
		// reported for a lookup scoped to one dataset
		if len(exp.Sc) == 1 && act.Del != exp.Del {
			s.diverge("lookup", q, map[string]any{"deleted": exp.Del, "parts": []any{}}, act, "deleted flag")
			return
		}
		if !exp.Del && (len(act.Props) != 0 || len(act.Refs) != 0) {
			s.diverge("lookup", q, map[string]any{"deleted": exp.Del, "parts": []any{}}, act, "expected empty entity")
		}
		return
	}
	var props, refs []map[string]any
	var expParts []CEntity
	for _, p := range exp.Parts {
		c := s.Expect(exp.E, p.C)
		props = append(props, c.Props)
		refs = append(refs, c.Refs)
		expParts = append(expParts, c)
	}
	if ent == nil || act.Del || act.ID != s.EntCurie(exp.E) || !MergeEqual(props, act.Props) || !MergeEqual(refs, act.Refs) {
		s.diverge("lookup", q, map[string]any{"merge-of": expParts}, act, "")
	}
}

type relKey struct {
	s, p string
	inv  bool
	sc   string
	t    int
}

func pairSet(p []Pair) []string {
	out := make([]string, len(p))
	for i, x := range p {
		out[i] = x[0] + ">" + x[1]
	}
	sort.Strings(out)
	return out
}

func (s *Session) checkRelated(o *Obs) error {
	tab := map[relKey][]Pair{}
	for _, r := range o.Rel {
		tab[relKey{r.S, r.P, r.Inv, scopeKey(r.Sc), r.T}] = r.Pairs
	}
	look := map[lookKey]LookObs{}
	for _, l := range o.Look {
		look[lookKey{l.E, scopeKey(l.Sc), l.T}] = l
	}
	preds := append([]string{"*"}, s.H.Pred...)
	for _, start := range s.H.Ent {
		for _, p := range preds {
			for _, inv := range []bool{false, true} {
				for _, sc := range Subsets(s.H.Ds) {
					if !s.scopeLive(o, sc) {
						s.Skipped++
						continue
					}
					for _, t := range s.specInstants(o) {
						exp := pairSet(tab[relKey{start, p, inv, scopeKey(sc), t}])
						q := map[string]any{"start": start, "pred": p, "inverse": inv, "scope": sc, "t": t}
						predArg := "*"
						if p != "*" {
							predArg = s.PredURI(p)
						}
						type run struct {
							how   string
							limit int
							at    int64
						}
						var runs []run
						if t == o.Clock {
							runs = append(runs, run{"now", 0, 0})
							for _, l := range s.H.Limits {
								if l > 0 {
									runs = append(runs, run{fmt.Sprintf("now,limit=%d", l), l, 0})
								}
							}
						}
						if s.Ad.CanAt() && !s.NoAt {
							for _, at := range s.instants(t) {
								runs = append(runs, run{fmt.Sprintf("at=%d", at), 0, at})
								if t != o.Clock {
									for _, l := range s.H.Limits {
										if l > 0 {
											runs = append(runs, run{fmt.Sprintf("at=%d,limit=%d", at, l), l, at})
										}
									}
								}
							}
						}
						if t == o.Clock {
							// the same question with the start and the predicate written as CURIEs
							runs = append(runs, run{"now,curie", 0, -2})
						}
						if t == o.Clock && s.jsQueries() {
							runs = append(runs, run{"js Query", 0, -3}, run{"js PagedQuery,pagesize=1", 1, -3})
						}
						if t == o.Clock && s.httpQueries() {
							runs = append(runs, run{"POST /query", 0, -1})
							for _, l := range s.H.Limits {
								if l > 0 {
									runs = append(runs, run{fmt.Sprintf("POST /query,limit=%d", l), l, -1})
								}
							}
						}
						for _, r := range runs {
							var rels []RelOut
							var err error
							if r.at == -1 {
								rels, err = s.httpRelated(s.EntURI(start), predArg, inv, s.scopeReal(sc), r.limit)
								r.at = 0
							} else if r.at == -3 {
								rels, err = s.jsRelated(s.EntURI(start), predArg, inv, s.scopeReal(sc), r.limit)
								r.at, r.limit = 0, 0
							} else if r.at == -2 {
								pc := "*"
								if p != "*" {
									pc = s.PredCurie(p)
								}
								rels, err = s.Ad.Related(s, []string{s.EntCurie(start)}, pc, inv, s.scopeReal(sc), 0, 0)
								r.at = 0
							} else {
								rels, err = s.Ad.Related(s, []string{s.EntURI(start)}, predArg, inv, s.scopeReal(sc), r.limit, r.at)
							}
							if err != nil {
								return err
							}
							s.Checks++
							var got []string
							for _, x := range rels {
								got = append(got, s.predAbstract(x.Pred)+">"+s.entAbstract(x.Other.ID))
								if x.Start != s.EntCurie(start) {
									s.diverge("related", q, "start "+s.EntCurie(start), x.Start, r.how)
								}
							}
							sort.Strings(got)
							if strings.Join(got, ",") != strings.Join(exp, ",") {
								s.diverge("related", q, exp, got, r.how)
								continue
							}
							// bodies of related entities are the current lookup of that entity in the same scope
							if r.at == 0 || t == o.Clock {
								for _, x := range rels {
									oe := s.entAbstract(x.Other.ID)
									le := look[lookKey{oe, scopeKey(sc), o.Clock}]
									le.E, le.Sc, le.T = oe, sc, o.Clock
									if s.H.HasKind("look") {
										s.Checks++
										s.compareLookup(le, x.Other, "body-of-related:"+r.how)
									}
								}
							}
						}
					}
				}
			}
		}
	}
	return nil
}

// checkRelatedMulti asks for the relations of ALL entities in one query (several starting points, several
// continuations per page) through the Go API and POST /query: the answer is the union of the single answers.
func (s *Session) checkRelatedMulti(o *Obs) error {
	if s.Ad.Name() != "go" || len(s.H.Ent) < 2 {
		return nil
	}
	tab := map[relKey][]Pair{}
	for _, r := range o.Rel {
		tab[relKey{r.S, r.P, r.Inv, scopeKey(r.Sc), r.T}] = r.Pairs
	}
	var starts []string
	for _, e := range s.H.Ent {
		starts = append(starts, s.EntURI(e))
	}
	for _, inv := range []bool{false, true} {
		for _, sc := range Subsets(s.H.Ds) {
			if !s.scopeLive(o, sc) {
				continue
			}
			exp := []string{}
			for _, e := range s.H.Ent {
				for _, x := range pairSet(tab[relKey{e, "*", inv, scopeKey(sc), o.Clock}]) {
					exp = append(exp, e+":"+x)
				}
			}
			sort.Strings(exp)
			type run struct {
				how   string
				limit int
				http  bool
			}
			runs := []run{{"many,now", 0, false}}
			for _, l := range s.H.Limits {
				if l > 0 {
					runs = append(runs, run{fmt.Sprintf("many,now,limit=%d", l), l, false})
					if s.httpQueries() {
						runs = append(runs, run{fmt.Sprintf("many,POST /query,limit=%d", l), l, true})
					}
				}
			}
			for _, r := range runs {
				var rels []RelOut
				var err error
				if r.http {
					rels, err = s.httpRelatedMany(starts, "*", inv, s.scopeReal(sc), r.limit)
				} else {
					rels, err = s.Ad.Related(s, starts, "*", inv, s.scopeReal(sc), r.limit, 0)
				}
				if err != nil {
					return err
				}
				var got []string
				for _, x := range rels {
					got = append(got, s.entAbstract(x.Start)+":"+s.predAbstract(x.Pred)+">"+s.entAbstract(x.Other.ID))
				}
				sort.Strings(got)
				s.Checks++
				if strings.Join(got, ",") != strings.Join(exp, ",") {
					q := map[string]any{"start": s.H.Ent, "pred": "*", "inverse": inv, "scope": sc, "t": o.Clock}
					s.diverge("related", q, exp, got, r.how)
				}
			}
		}
	}
	return nil
}

func (s *Session) checkCatalogue(o *Obs) error {
	cm := o.CatMap()
	got, err := s.Ad.Catalogue(s)
	if err != nil {
		return err
	}
	for _, n := range s.H.Ds {
		exp, known := cm[n]
		act, found := got[s.DsReal(n)]
		s.Checks++
		q := map[string]any{"ds": n}
		if !known {
			if found {
				s.diverge("catalogue", q, "no meta entity", act, "")
			}
			continue
		}
		if !found {
			s.diverge("catalogue", q, exp, "no meta entity", "")
			continue
		}
		if (exp.State == "live") != !act.Deleted || act.Count != 1 {
			s.diverge("catalogue", q, exp, act, "state")
			continue
		}
		if exp.State == "live" && (act.Items != exp.Items || act.Name != s.DsReal(n)) {
			s.diverge("catalogue", q, exp, act, "items/name")
		} else if len(act.Foreign) > 0 {
			s.diverge("catalogue", q, "a meta-entity made of the hub's own properties, single-valued", act, "foreign content")
		}
	}
	// dataset list
	names, err := s.Ad.DatasetNames(s)
	if err != nil {
		return err
	}
	var mine []string
	for _, n := range names {
		if strings.HasSuffix(n, "-"+s.Tag) {
			mine = append(mine, strings.TrimSuffix(n, "-"+s.Tag))
		}
	}
	sort.Strings(mine)
	s.Checks++
	if strings.Join(mine, ",") != strings.Join(sortedCopy(o.Names), ",") {
		s.diverge("dataset-list", nil, sortedCopy(o.Names), mine, "")
	}
	return nil
}

type stepAns struct {
	St  *Step
	Ans StepAnswer
}

// Summary of one replayed behaviour, written as one NDJSON line.
type Result struct {
	Idx     int          `json:"idx"`
	Table   string       `json:"table"`
	Adapter string       `json:"adapter"`
	Checks  int          `json:"checks"`
	Skipped int          `json:"skipped"`
	NonTriv bool         `json:"nontrivial"`
	Hash    string       `json:"hash"`
	Err     string       `json:"err,omitempty"`
	Divs    []Divergence `json:"divs,omitempty"`
	Steps   []Step       `json:"steps,omitempty"`
}

func stepsJSON(st []Step) string {
	b, _ := json.Marshal(st)
	return string(b)
}
