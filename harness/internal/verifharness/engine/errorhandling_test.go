package engine

import (
	"bufio"
	"encoding/json"
	"fmt"
	"os"
	"path/filepath"
	"regexp"
	"strconv"
	"testing"
	"time"

	"go.uber.org/zap"
	"go.uber.org/zap/zapcore"
	"go.uber.org/zap/zaptest/observer"

	"github.com/mimiro-io/datahub/internal/jobs"
	"github.com/mimiro-io/datahub/internal/server"
)

type ehCase struct {
	N          int    `json:"n"`
	Fail       []int  `json:"fail"`
	M          int    `json:"m"`
	Page       int    `json:"page"`
	Mode       string `json:"mode"`
	Delivered  []int  `json:"delivered"`
	Reported   []int  `json:"reported"`
	Outcome    string `json:"outcome"`
	Token      int    `json:"token"`
	Retries    int    `json:"retries"`
	OkAfter    int    `json:"okAfter"`
	Executions int    `json:"executions"`
	Final      string `json:"final"`
	Second     string `json:"second"`
	Kill       bool   `json:"kill"`
	JType      string `json:"jtype"`
}

var failedRe = regexp.MustCompile(`entity (\S+) failed to process`)

// TestErrorHandling executes the cases TLC enumerated from spec/ErrorHandling.tla on real jobs
// (DatasetSource -> scripted sink around a DatasetSink) with log / reRun error handlers.
func TestErrorHandling(t *testing.T) {
	in := os.Getenv("VERIF_TLC_OUT")
	if in == "" {
		t.Skip("VERIF_TLC_OUT not set")
	}
	start := time.Now()
	stride, offset := envInt("VERIF_STRIDE", 1), envInt("VERIF_OFFSET", 0)
	dir := os.Getenv("VERIF_DIR")
	outf, err := os.Create(os.Getenv("VERIF_RESULT"))
	if err != nil {
		t.Fatal(err)
	}
	defer outf.Close()
	out := bufio.NewWriter(outf)
	defer out.Flush()
	enc := json.NewEncoder(out)
	sum := Summary{Summary: true}

	core, logs := observer.New(zapcore.WarnLevel)
	w := &World{Dir: filepath.Join(dir, fmt.Sprintf("eh%d", offset)), Env: NewEnv(filepath.Join(dir, fmt.Sprintf("eh%d", offset)))}
	w.Env.Logger = zap.New(core).Sugar()
	if err := w.open(); err != nil {
		t.Fatal(err)
	}
	defer w.Destroy()

	f, err := os.Open(in)
	if err != nil {
		t.Fatal(err)
	}
	defer f.Close()
	sc := bufio.NewScanner(f)
	sc.Buffer(make([]byte, 1<<20), 1<<26)
	idx := -1
	for sc.Scan() {
		payload, ok := ParseTLCLine(sc.Text(), "CASE")
		if !ok {
			continue
		}
		idx++
		if idx%stride != offset {
			continue
		}
		c := &ehCase{}
		if err := json.Unmarshal(payload, c); err != nil {
			t.Fatal(err)
		}
		sum.Behaviours++
		sum.Replays++
		sum.NonTrivial++
		tag := fmt.Sprintf("c%d", idx)
		r := Result{Idx: idx, Adapter: "jobs"}
		div := func(kind string, exp, act any) {
			r.Divs = append(r.Divs, Divergence{Kind: kind, Adapter: "jobs", Query: c, Expected: exp, Actual: act})
		}
		src, _ := w.Dsm.CreateDataset("src-"+tag, nil)
		_, _ = w.Dsm.CreateDataset("snk-"+tag, nil)
		id := func(i int) string { return fmt.Sprintf("%s:e%02d-%s", w.EntP, i, tag) }
		var ents []*server.Entity
		for i := 1; i <= c.N; i++ {
			e := server.NewEntity(id(i), 0)
			e.Properties[w.PropP+":k"] = i
			ents = append(ents, e)
		}
		if err := src.StoreEntities(ents); err != nil {
			t.Fatal(err)
		}
		var failIDs []string
		for _, i := range c.Fail {
			failIDs = append(failIDs, id(i))
		}
		handlers := jobs.ErrorHandlers{}
		if c.Mode == "log" {
			handlers = append(handlers, &jobs.ErrorHandler{Type: "log", MaxItems: c.M})
		} else {
			handlers = append(handlers, &jobs.ErrorHandler{Type: "rerun", MaxRetries: c.Retries, RetryDelay: 1})
		}
		cfg := &jobs.JobConfiguration{ID: "job-" + tag, Title: "job-" + tag, BatchSize: c.Page,
			Source:   map[string]interface{}{"Type": "DatasetSource", "Name": "src-" + tag},
			Sink:     map[string]interface{}{"Type": "DatasetSink", "Name": "snk-" + tag},
			Triggers: []jobs.JobTrigger{{TriggerType: jobs.TriggerTypeCron, JobType: jobs.JobTypeIncremental, Schedule: "0 0 1 1 *", ErrorHandlers: handlers}}}
		if c.JType == "fullsync" {
			cfg.Triggers[0].JobType = jobs.JobTypeFull
		}
		rejectFirst, killOnCall := 0, 0
		if c.Mode == "rerun" {
			rejectFirst = c.OkAfter
			if c.Kill {
				killOnCall = 1
			}
		}
		hj, err := w.Sched().VerifHandledJobFor(cfg, failIDs, rejectFirst, killOnCall)
		if err != nil {
			t.Fatal(err)
		}
		logs.TakeAll()
		if p := hj.Run(); p != "" {
			div("job-panic", "run ends as success or failure", p)
		}
		if c.Mode == "log" {
			sum.Checks += 5
			var exp []string
			for _, i := range c.Delivered {
				exp = append(exp, id(i))
			}
			if got := hj.Delivered(); fmt.Sprint(got) != fmt.Sprint(exp) {
				div("delivered", exp, got)
			}
			var rep, expRep []string
			for _, e := range logs.TakeAll() {
				if m := failedRe.FindStringSubmatch(e.Message); m != nil {
					rep = append(rep, m[1])
				}
			}
			for _, i := range c.Reported {
				expRep = append(expRep, id(i))
			}
			if fmt.Sprint(rep) != fmt.Sprint(expRep) {
				div("reported", expRep, rep)
			}
			lastErr, _, has := hj.Result()
			if !has {
				div("job-result", "a stored run result", "none")
			} else if (c.Outcome == "ok") != (lastErr == "") {
				div("job-result", c.Outcome, lastErr)
			}
			tok := 0
			if ts := hj.Token(); ts != "" {
				tok, _ = strconv.Atoi(ts)
			}
			if tok != c.Token {
				div("job-token", c.Token, tok)
			}
			if !hj.Idle() {
				div("job-slot", "run slot released", "still running")
			}
			if c.Second == "ok" {
				before := len(hj.Delivered())
				if p := hj.Run(); p != "" {
					div("job-panic", "second run ends as success", p)
				}
				sum.Checks += 2
				if len(hj.Delivered()) != before {
					div("second-run-delivered", "nothing new", hj.Delivered()[before:])
				}
				if lastErr2, _, has2 := hj.Result(); !has2 || lastErr2 != "" {
					div("second-run-result", "ok (nothing was rejected in this run)", lastErr2)
				}
			}
		} else {
			// wait for the re-runs the handler schedules on its own timers (1 s apart)
			deadline := time.Now().Add(time.Duration(c.Retries+1)*1300*time.Millisecond + 300*time.Millisecond)
			for time.Now().Before(deadline) {
				time.Sleep(100 * time.Millisecond)
			}
			sum.Checks += 2
			if got := hj.Calls(); got != c.Executions {
				div("executions", c.Executions, got)
			}
			lastErr, _, has := hj.Result()
			if c.Final == "killed" {
				// how a kill is worded in the stored result is not prescribed: it must exist, and the slot be free
				if !has {
					div("job-result", "a stored run result", "none")
				}
				if !hj.Idle() {
					div("job-slot", "run slot released", "still running")
				}
			} else if !has || (c.Final == "ok") != (lastErr == "") {
				div("job-result", c.Final, lastErr)
			}
		}
		if len(sum.Samples) < 3 && len(c.Fail) > 1 {
			sum.Samples = append(sum.Samples, c)
		}
		if len(r.Divs) > 0 {
			sum.Diverging++
			_ = enc.Encode(r)
		}
	}
	sum.WallSeconds = time.Since(start).Seconds()
	_ = enc.Encode(sum)
}
