// Package engine is the conformance harness of /verif: it replays behaviours
// emitted by TLC from the reference specification (spec/Datahub.tla) against the
// real datahub code and compares every answer of the read APIs with the answer
// the specification requires.  It is compiled into /repo with `go -overlay`, so
// it always builds against /repo's current working tree.
package engine

import (
	"bufio"
	"encoding/json"
	"fmt"
	"io"
	"os"
	"sort"
	"strings"
)

// RefVal is an abstract reference value: K = 0 none, 1 single string, 2 array.
type RefVal struct {
	K int      `json:"k"`
	T []string `json:"t"`
}

// Content is an abstract entity content.
type Content struct {
	P int               `json:"p"`
	R map[string]RefVal `json:"r"`
	D bool              `json:"d"`
}

// Header is the universe of a TLC configuration.
type Header struct {
	Ds         []string  `json:"ds"`
	Ent        []string  `json:"ent"`
	Pred       []string  `json:"pred"`
	Contents   []Content `json:"contents"`
	Limits     []int     `json:"limits"`
	Kinds      []string  `json:"kinds"`
	Acts       []string  `json:"acts"`
	Precreated bool      `json:"precreated"`
	Jobs       []JobDef  `json:"-"` // from the JHEADER line of spec/Jobs.tla configurations
	Ms         *MsDef    `json:"-"` // from the MHEADER line of spec/MultiSource.tla configurations
}

// MsJoin / MsDep / MsDef: the MultiSource job of a spec/MultiSource.tla configuration.
type MsJoin struct {
	Ds   string `json:"ds"`
	Pred string `json:"pred"`
	Inv  bool   `json:"inv"`
}
type MsDep struct {
	Ds    string   `json:"ds"`
	Joins []MsJoin `json:"joins"`
}
type MsDef struct {
	Base Header  `json:"base"`
	Main string  `json:"main"`
	Deps []MsDep `json:"deps"`
}

// JobDef is one job definition of a Jobs.tla configuration.
type JobDef struct {
	ID    string   `json:"id"`
	Src   []string `json:"src"`
	Sink  string   `json:"sink"`
	Batch int      `json:"batch"`
	Lo    bool     `json:"lo"`
	Xf    string   `json:"xf"`
	Par   int      `json:"par"`
}

type JHeader struct {
	Base Header   `json:"base"`
	Jobs []JobDef `json:"jobs"`
}

// StepX is the required answer of a step (kept apart from its arguments: two variants of a
// specification have the same steps but may require different answers).
type StepX struct {
	Status    int    `json:"status,omitempty"`
	Fires     *bool  `json:"fires,omitempty"`
	Completes *bool  `json:"completes,omitempty"`
	Own       string `json:"own,omitempty"` // reference owner of the running sync before the step (diagnostics / finding triage)
}

// Fault is an injected pipeline fault (see spec/Jobs.tla).
type Fault struct {
	K string `json:"k"`
	N int    `json:"n"`
}

// JobObs is the persisted state of one job.
type JobObs struct {
	Tok       []uint64 `json:"tok"`
	State     string   `json:"state"`
	Processed int      `json:"processed"`
}

func (h *Header) HasKind(k string) bool {
	for _, x := range h.Kinds {
		if x == k {
			return true
		}
	}
	return false
}

// Elem is one batch element: entity id and content index (1-based).
type Elem struct {
	E string
	C int
}

func (e *Elem) UnmarshalJSON(b []byte) error {
	var raw []json.RawMessage
	if err := json.Unmarshal(b, &raw); err != nil {
		return err
	}
	if len(raw) != 2 {
		return fmt.Errorf("bad elem %s", b)
	}
	if err := json.Unmarshal(raw[0], &e.E); err != nil {
		return err
	}
	return json.Unmarshal(raw[1], &e.C)
}

func (e Elem) MarshalJSON() ([]byte, error) { return json.Marshal([]any{e.E, e.C}) }

// TxnPart is one dataset's batch inside a transaction.
type TxnPart struct {
	Ds string
	B  []Elem
}

func (t *TxnPart) UnmarshalJSON(b []byte) error {
	var raw []json.RawMessage
	if err := json.Unmarshal(b, &raw); err != nil {
		return err
	}
	if len(raw) != 2 {
		return fmt.Errorf("bad txn part %s", b)
	}
	if err := json.Unmarshal(raw[0], &t.Ds); err != nil {
		return err
	}
	return json.Unmarshal(raw[1], &t.B)
}
func (t TxnPart) MarshalJSON() ([]byte, error) { return json.Marshal([]any{t.Ds, t.B}) }

type Page struct {
	Items []Elem `json:"items"`
	Next  uint64 `json:"next"`
}

type Reader struct {
	ID  int    `json:"id"`
	Ds  string `json:"ds"`
	Lo  bool   `json:"lo"`
	Lim int    `json:"lim"`
}

// Step is one action of a behaviour.
type Step struct {
	A     string    `json:"a"`
	Ds    string    `json:"ds,omitempty"`
	B     []Elem    `json:"b,omitempty"`
	M     []TxnPart `json:"m,omitempty"`
	To    string    `json:"to,omitempty"`
	E     string    `json:"e,omitempty"`
	Via   int       `json:"via,omitempty"`
	R     *Reader   `json:"r,omitempty"`
	Since uint64    `json:"since,omitempty"`
	Page  *Page     `json:"page,omitempty"`
	Obs   *Obs      `json:"obs,omitempty"` // backup steps: answers required of the restored hub

	// full-sync steps (spec/FullSync.tla)
	ID    string `json:"id,omitempty"`
	Start bool   `json:"start,omitempty"`
	End   bool   `json:"end,omitempty"`
	Run   int    `json:"run,omitempty"`
	X     *StepX `json:"x,omitempty"` // what the specification requires of this step's own answer

	// MultiSource catch-up steps (spec/MultiSource.tla)
	Required []string        `json:"required,omitempty"`
	First    bool            `json:"first,omitempty"`
	AllowedE []string        `json:"allowed,omitempty"`
	MainTok  uint64          `json:"maintok,omitempty"`
	DepTok   json.RawMessage `json:"deptok,omitempty"`

	// job steps (spec/Jobs.tla)
	J         int      `json:"j,omitempty"`
	Type      string   `json:"type,omitempty"`
	Fault     *Fault   `json:"fault,omitempty"`
	Calls     [][]Elem `json:"calls,omitempty"`
	Outcome   string   `json:"outcome,omitempty"`
	Tok       []uint64 `json:"tok,omitempty"`
	Processed int      `json:"processed,omitempty"`
}

type ChgObs struct {
	Ds    string `json:"ds"`
	Since uint64 `json:"since"`
	Lim   int    `json:"lim"`
	Lo    bool   `json:"lo"`
	Pg    Page   `json:"pg"`
}

type Part struct {
	Ds string
	C  int
}

func (p *Part) UnmarshalJSON(b []byte) error {
	var raw []json.RawMessage
	if err := json.Unmarshal(b, &raw); err != nil {
		return err
	}
	if len(raw) != 2 {
		return fmt.Errorf("bad part %s", b)
	}
	if err := json.Unmarshal(raw[0], &p.Ds); err != nil {
		return err
	}
	return json.Unmarshal(raw[1], &p.C)
}
func (p Part) MarshalJSON() ([]byte, error) { return json.Marshal([]any{p.Ds, p.C}) }

type LookObs struct {
	E     string   `json:"e"`
	Sc    []string `json:"sc"`
	T     int      `json:"t"`
	Del   bool     `json:"del"`
	Parts []Part   `json:"parts"`
}

type Pair [2]string // predicate, other entity

type RelObs struct {
	S     string   `json:"s"`
	P     string   `json:"p"`
	Inv   bool     `json:"inv"`
	Sc    []string `json:"sc"`
	T     int      `json:"t"`
	Pairs []Pair   `json:"pairs"`
}

type CatObs struct {
	State string `json:"state"`
	Items int    `json:"items"`
}

// Obs is the bundle of required answers in the final state of a behaviour.
type Obs struct {
	Clock int             `json:"clock"`
	Names []string        `json:"names"`
	Ent   json.RawMessage `json:"ent"`
	Chg   []ChgObs        `json:"chg"`
	Look  []LookObs       `json:"look"`
	Rel   []RelObs        `json:"rel"`
	Cat   json.RawMessage `json:"cat"`

	ent map[string][]Elem
	cat map[string]CatObs
}

// EntMap decodes the ent table (TLC renders an empty function as []).
func (o *Obs) EntMap() map[string][]Elem {
	if o.ent == nil {
		o.ent = map[string][]Elem{}
		if len(o.Ent) > 0 && o.Ent[0] == '{' {
			_ = json.Unmarshal(o.Ent, &o.ent)
		}
	}
	return o.ent
}

func (o *Obs) CatMap() map[string]CatObs {
	if o.cat == nil {
		o.cat = map[string]CatObs{}
		if len(o.Cat) > 0 && o.Cat[0] == '{' {
			_ = json.Unmarshal(o.Cat, &o.cat)
		}
	}
	return o.cat
}

// Behaviour is one emitted TLC state: the history that reached it and its Obs.
type Behaviour struct {
	Steps  []Step          `json:"steps"`
	Obs    Obs             `json:"obs"`
	Jobs   []JobObs        `json:"jobs,omitempty"`
	PreRaw json.RawMessage `json:"pre,omitempty"` // Obs of the state before the last step (crash configurations)
	Pre    *Obs            `json:"-"`
}

// DecodePre fills Pre from PreRaw (TLC renders "no previous state" as []).
func (b *Behaviour) DecodePre() {
	if b.Pre == nil && len(b.PreRaw) > 0 && b.PreRaw[0] == '{' {
		o := &Obs{}
		if json.Unmarshal(b.PreRaw, o) == nil {
			b.Pre = o
		}
	}
}

// ParseTLCLine extracts the JSON payload of a `<<"TAG", "json">>` line printed by
// TLC's PrintT.  ok is false for any other line.
func ParseTLCLine(line string, tag string) (payload []byte, ok bool) {
	prefix := `<<"` + tag + `", `
	if !strings.HasPrefix(line, prefix) || !strings.HasSuffix(line, ">>") {
		return nil, false
	}
	lit := line[len(prefix) : len(line)-2]
	var s string
	if err := json.Unmarshal([]byte(lit), &s); err != nil {
		return nil, false
	}
	return []byte(s), true
}

// ReadTLC reads a TLC stdout file and calls fn for every TRACE line whose index
// (0-based, counting TRACE lines only) satisfies idx % stride == offset.
func ReadTLC(path string, stride, offset int, fn func(idx int, b *Behaviour) error) (*Header, int, error) {
	f, err := os.Open(path)
	if err != nil {
		return nil, 0, err
	}
	defer f.Close()
	rd := bufio.NewReaderSize(f, 1<<20)
	var hdr *Header
	idx := 0
	for {
		line, err := rd.ReadString('\n')
		if len(line) > 0 {
			line = strings.TrimRight(line, "\r\n")
			if strings.HasPrefix(line, `<<"TRACE"`) {
				if idx%stride == offset {
					payload, ok := ParseTLCLine(line, "TRACE")
					if !ok {
						return hdr, idx, fmt.Errorf("unparsable TRACE line %d", idx)
					}
					b := &Behaviour{}
					if e := json.Unmarshal(payload, b); e != nil {
						return hdr, idx, fmt.Errorf("TRACE line %d: %v", idx, e)
					}
					b.DecodePre()
					if e := fn(idx, b); e != nil {
						return hdr, idx, e
					}
				}
				idx++
			} else if strings.HasPrefix(line, `<<"MHEADER"`) {
				payload, ok := ParseTLCLine(line, "MHEADER")
				if ok {
					md := &MsDef{}
					if e := json.Unmarshal(payload, md); e != nil {
						return nil, idx, fmt.Errorf("MHEADER: %v", e)
					}
					h := md.Base
					h.Ms = md
					hdr = &h
				}
			} else if strings.HasPrefix(line, `<<"JHEADER"`) {
				payload, ok := ParseTLCLine(line, "JHEADER")
				if ok {
					jh := &JHeader{}
					if e := json.Unmarshal(payload, jh); e != nil {
						return nil, idx, fmt.Errorf("JHEADER: %v", e)
					}
					h := jh.Base
					h.Jobs = jh.Jobs
					hdr = &h
				}
			} else if strings.HasPrefix(line, `<<"HEADER"`) && (hdr == nil || (len(hdr.Jobs) == 0 && hdr.Ms == nil)) {
				payload, ok := ParseTLCLine(line, "HEADER")
				if ok {
					h := &Header{}
					if e := json.Unmarshal(payload, h); e != nil {
						return nil, idx, fmt.Errorf("HEADER: %v", e)
					}
					hdr = h
				}
			}
		}
		if err == io.EOF {
			break
		}
		if err != nil {
			return hdr, idx, err
		}
	}
	return hdr, idx, nil
}

func sortedCopy(s []string) []string {
	c := append([]string{}, s...)
	sort.Strings(c)
	return c
}

func scopeKey(sc []string) string { return strings.Join(sortedCopy(sc), ",") }

// Subsets enumerates all subsets of names (as sorted slices), {} first.
func Subsets(names []string) [][]string {
	names = sortedCopy(names)
	n := len(names)
	out := make([][]string, 0, 1<<n)
	for m := 0; m < 1<<n; m++ {
		var s []string
		for i := 0; i < n; i++ {
			if m&(1<<i) != 0 {
				s = append(s, names[i])
			}
		}
		out = append(out, s)
	}
	return out
}
