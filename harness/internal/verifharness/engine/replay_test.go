package engine

import (
	"bufio"
	"crypto/sha1"
	"encoding/hex"
	"encoding/json"
	"fmt"
	"os"
	"path/filepath"
	"strconv"
	"strings"
	"testing"
	"time"
)

func envInt(name string, def int) int {
	if v := os.Getenv(name); v != "" {
		if n, err := strconv.Atoi(v); err == nil {
			return n
		}
	}
	return def
}

// Summary is the last line a replay worker writes.
type Summary struct {
	Summary     bool     `json:"summary"`
	Behaviours  int      `json:"behaviours"`
	Replays     int      `json:"replays"`
	Checks      int      `json:"checks"`
	Skipped     int      `json:"skipped"`
	NonTrivial  int      `json:"nontrivial_distinct"`
	Diverging   int      `json:"diverging"`
	Errors      int      `json:"errors"`
	Samples     []any    `json:"samples"`
	Tables      []string `json:"tables"`
	Adapters    []string `json:"adapters"`
	WallSeconds float64  `json:"wall_s"`
}

func pickTables(spec string) []Table {
	if spec == "" {
		return Tables[:1]
	}
	var out []Table
	for _, n := range strings.Split(spec, ",") {
		for _, t := range Tables {
			if t.Name == n {
				out = append(out, t)
			}
		}
	}
	return out
}

func pickAdapters(spec string) []Adapter {
	if spec == "" {
		spec = "go"
	}
	var out []Adapter
	for _, n := range strings.Split(spec, ",") {
		if a := AdapterByName(n); a != nil {
			out = append(out, a)
		}
	}
	return out
}

// TestReplay is a replay worker: it reads TLC's stdout (VERIF_TLC_OUT), takes the
// behaviours with index % VERIF_STRIDE == VERIF_OFFSET, replays each under every
// selected table and adapter and writes divergences to VERIF_RESULT.
func TestReplay(t *testing.T) {
	in := os.Getenv("VERIF_TLC_OUT")
	if in == "" {
		t.Skip("VERIF_TLC_OUT not set")
	}
	start := time.Now()
	stride, offset := envInt("VERIF_STRIDE", 1), envInt("VERIF_OFFSET", 0)
	maxDiv := envInt("VERIF_MAX_DIV", 1000000)
	perWorld := envInt("VERIF_PER_WORLD", 400)
	rotate := envInt("VERIF_ROTATE", 0) // 1: each behaviour under ONE table, chosen by (idx + seed) mod #tables
	seed := envInt("VERIF_SEED", 1)
	tables := pickTables(os.Getenv("VERIF_TABLES"))
	adapters := pickAdapters(os.Getenv("VERIF_ADAPTERS"))
	dir := os.Getenv("VERIF_DIR")
	if dir == "" {
		dir = t.TempDir()
	}
	outf, err := os.Create(os.Getenv("VERIF_RESULT"))
	if err != nil {
		t.Fatal(err)
	}
	defer outf.Close()
	out := bufio.NewWriter(outf)
	defer out.Flush()
	enc := json.NewEncoder(out)

	sum := Summary{Summary: true}
	for _, tb := range tables {
		sum.Tables = append(sum.Tables, tb.Name)
	}
	for _, a := range adapters {
		sum.Adapters = append(sum.Adapters, a.Name())
	}
	seen := map[string]bool{}
	var w *World
	inWorld, worldNo := 0, 0
	var hdr *Header
	newWorld := func() {
		if w != nil {
			w.Destroy()
		}
		worldNo++
		var e error
		w, e = OpenWorld(filepath.Join(dir, fmt.Sprintf("w%d_%d", offset, worldNo)))
		if e != nil {
			t.Fatal(e)
		}
		inWorld = 0
	}
	newWorld()
	defer func() { w.Destroy() }()

	// the header precedes all TRACE lines in TLC's output
	h0, _, err := ReadTLC(in, 1<<30, 1<<30-1, func(int, *Behaviour) error { return nil })
	if err != nil || h0 == nil {
		t.Fatalf("no HEADER in %s: %v", in, err)
	}
	hdr = h0
	needCreate := hdr.Precreated

	// optional second TLC output: the same behaviours judged by the AS-CODED variant of the
	// specification (known findings): a divergence from the reference that the as-coded variant
	// predicts exactly is marked as explained
	asis := map[string]*Behaviour{}
	if ap := os.Getenv("VERIF_ASIS_OUT"); ap != "" {
		_, _, aerr := ReadTLC(ap, 1, 0, func(_ int, ab *Behaviour) error {
			asis[stepsKey(ab.Steps)] = ab
			return nil
		})
		if aerr != nil {
			t.Fatal(aerr)
		}
	}

	_, total, err := ReadTLC(in, stride, offset, func(idx int, b *Behaviour) error {
		sum.Behaviours++
		for ti, tb := range tables {
			if rotate == 1 && (idx+seed)%len(tables) != ti {
				continue
			}
			for ai, ad := range adapters {
				if inWorld >= perWorld {
					newWorld()
				}
				inWorld++
				// leave a marker so that the driver knows which behaviour a dying worker was replaying
				_ = os.WriteFile(os.Getenv("VERIF_RESULT")+".cur", []byte(fmt.Sprintf("%d %s %s\n%s", idx, tb.Name, ad.Name(), stepsJSON(b.Steps))), 0o644)
				tag := fmt.Sprintf("b%dt%da%d", idx, ti, ai)
				s := NewSession(w, hdr, tag, tb, ad)
				s.Variant = idx + seed
				var rerr error
				if needCreate {
					for _, n := range hdr.Ds {
						if _, e := w.Dsm.CreateDataset(s.DsReal(n), nil); e != nil {
							rerr = e
						}
					}
				}
				if rerr == nil {
					rerr = s.Run(b)
				}
				if rerr == nil && len(s.Divs) > 0 {
					if ab, ok := asis[stepsKey(b.Steps)]; ok {
						if explainedByAsIs(s, ab) {
							for i := range s.Divs {
								s.Divs[i].Note = "asis:" + s.Divs[i].Note
							}
						}
					}
				}
				sum.Replays++
				sum.Checks += s.Checks
				sum.Skipped += s.Skipped
				hsum := sha1.Sum([]byte(stepsJSON(b.Steps)))
				hash := hex.EncodeToString(hsum[:8])
				if s.NonTriv && !seen[hash] {
					seen[hash] = true
					sum.NonTrivial++
				}
				if len(sum.Samples) < 3 && idx > 2 && ti == 0 && ai == 0 {
					sum.Samples = append(sum.Samples, map[string]any{"steps": b.Steps, "checks": s.Checks})
				}
				if rerr != nil || len(s.Divs) > 0 {
					r := Result{Idx: idx, Table: tb.Name, Adapter: ad.Name(), Checks: s.Checks, NonTriv: s.NonTriv, Hash: hash, Steps: b.Steps, Divs: s.Divs}
					if rerr != nil {
						r.Err = rerr.Error()
						sum.Errors++
						// a failed step may leave the world in an unknown state
						newWorld()
					}
					if len(s.Divs) > 0 {
						sum.Diverging++
					}
					if len(r.Divs) > 60 {
						r.Divs = r.Divs[:60]
					}
					if sum.Diverging+sum.Errors <= maxDiv {
						_ = enc.Encode(r)
					}
				}
			}
		}
		return nil
	})
	if err != nil {
		t.Fatal(err)
	}
	_ = total
	sum.WallSeconds = time.Since(start).Seconds()
	_ = enc.Encode(sum)
}

// stepsKey identifies a behaviour by its actions and arguments only (not by required answers).
func stepsKey(steps []Step) string {
	cp := make([]Step, len(steps))
	copy(cp, steps)
	for i := range cp {
		cp[i].X = nil
		cp[i].Page = nil
		cp[i].Obs = nil
		cp[i].Calls, cp[i].Outcome, cp[i].Tok, cp[i].Processed = nil, "", nil, 0
	}
	return stepsJSON(cp)
}

// explainedByAsIs re-judges a finished session against the as-coded variant of the specification:
// every step answer and every read-API answer must be exactly what that variant requires.
func explainedByAsIs(s *Session, ab *Behaviour) bool {
	k := 0
	for i := range ab.Steps {
		st := &ab.Steps[i]
		switch st.A {
		case "http", "expire", "jobstart", "jobbatch", "jobend":
			if k >= len(s.Answers) {
				return false
			}
			if ok, _, _ := compareAnswer(st, st.X, s.Answers[k].Ans); !ok {
				return false
			}
			k++
		}
	}
	saved, savedClock := s.Divs, s.clock
	s.Divs = nil
	s.clock = ab.Obs.Clock
	for len(s.after) <= s.clock {
		s.after = append(s.after, spinUntilAfter(s.after[len(s.after)-1]))
	}
	err := s.CheckObs(&ab.Obs)
	explained := err == nil && len(s.Divs) == 0
	s.Divs, s.clock = saved, savedClock
	return explained
}
