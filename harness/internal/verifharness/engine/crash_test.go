package engine

import (
	"bufio"
	"encoding/json"
	"fmt"
	"math/rand"
	"os"
	"os/exec"
	"path/filepath"
	"strconv"
	"strings"
	"testing"
	"time"

	"github.com/mimiro-io/datahub/internal/jobs"
	"github.com/mimiro-io/datahub/internal/verifhook"
)

// crashPoints lists, per kind of last step, the hook points at which the child is killed.
var crashPoints = map[string][]string{
	"store":   {"store.locked", "store.built", "store.idcommitted", "store.committed", "store.metaupdated"},
	"reject":  {"store.locked"},
	"backup":  {"backup.idcreated", "backup.tmpcreated", "backup.written", "backup.renamed"},
	"txn":     {"txn.locked", "txn.built", "txn.idcommitted", "txn.committed", "store.committed"},
	"create":  {"dsm.create.idpersisted", "dsm.create.recordstored", "store.idcommitted", "store.committed", "dsm.create.metastored"},
	"delete":  {"dsm.delete.begin", "dsm.delete.setpersisted", "store.committed", "dsm.delete.metadeleted"},
	"rename":  {"dsm.rename.moved", "store.committed", "dsm.rename.tombstoned", "dsm.rename.metastored"},
	"gc":      {"gc.batch"},
	"compact": {"compact.flush"},
}

// ChildSpec is what the parent hands to a crash child.
type ChildSpec struct {
	Dir    string     `json:"dir"`
	Header *Header    `json:"header"`
	B      *Behaviour `json:"behaviour"`
	Table  string     `json:"table"`
	Tag    string     `json:"tag"`
	Point  string     `json:"point"`
	Hit    int        `json:"hit"`
	Flush  int        `json:"flush"`
	Jobs   []JobDef   `json:"jobs"`
}

// TestCrashChild executes a behaviour on a store directory and dies (exit 137, no deferred
// function, no Close) at the Hit-th time the last step reaches Point.  Exit 0 with "DONE" in the
// progress file means the last step completed (the point was not reached that often).
func TestCrashChild(t *testing.T) {
	specFile := os.Getenv("VERIF_CHILD_SPEC")
	if specFile == "" {
		t.Skip("not a crash child")
	}
	raw, err := os.ReadFile(specFile)
	if err != nil {
		t.Fatal(err)
	}
	cs := &ChildSpec{}
	if err := json.Unmarshal(raw, cs); err != nil {
		t.Fatal(err)
	}
	cs.Header.Jobs = cs.Jobs
	progress := func(msg string) {
		f, _ := os.OpenFile(specFile+".progress", os.O_CREATE|os.O_WRONLY|os.O_APPEND, 0o644)
		fmt.Fprintln(f, msg)
		_ = f.Sync()
		f.Close()
	}
	w, err := OpenWorld(cs.Dir)
	if err != nil {
		t.Fatal(err)
	}
	s := NewSession(w, cs.Header, cs.Tag, pickTables(cs.Table)[0], GoAdapter{})
	s.Variant = 0 // compaction in a crash child flushes after every deletion (threshold 1)
	if len(cs.Header.Jobs) > 0 {
		if err := s.preassertIDs(); err != nil {
			t.Fatal(err)
		}
	}
	if cs.Header.Precreated {
		for _, n := range cs.Header.Ds {
			if _, e := w.Dsm.CreateDataset(s.DsReal(n), nil); e != nil {
				t.Fatal(e)
			}
		}
	}
	k := len(cs.B.Steps)
	for i := 0; i < k-1; i++ {
		if err := s.Step(&cs.B.Steps[i]); err != nil {
			progress("ERR " + err.Error())
			os.Exit(3)
		}
	}
	progress(fmt.Sprintf("ACK %d", k-1))
	if strings.HasPrefix(cs.Point, "timer:") {
		us, _ := strconv.Atoi(strings.TrimPrefix(cs.Point, "timer:"))
		time.AfterFunc(time.Duration(us)*time.Microsecond, func() { os.Exit(137) })
	}
	hits := 0
	verifhook.SetHandler(func(id, arg string) {
		if id == cs.Point {
			hits++
			if hits == cs.Hit {
				os.Exit(137)
			}
		}
	})
	last := cs.B.Steps[k-1]
	if last.A == "job" {
		last.Fault = nil // the crash replaces the injected fault
	}
	if err := s.Step(&last); err != nil {
		progress("ERR " + err.Error())
		os.Exit(3)
	}
	progress("DONE")
	os.Exit(0) // no Close: a kill right after the acknowledgement
}

func runChild(cs *ChildSpec, scratch string) (code int, done bool, msg string, err error) {
	specFile := filepath.Join(scratch, "child.json")
	_ = os.Remove(specFile + ".progress")
	raw, _ := json.Marshal(cs)
	if err := os.WriteFile(specFile, raw, 0o644); err != nil {
		return 0, false, "", err
	}
	cmd := exec.Command(os.Args[0], "-test.run", "^TestCrashChild$", "-test.timeout", "120s")
	cmd.Env = append(os.Environ(), "VERIF_CHILD_SPEC="+specFile, "VERIF_TLC_OUT=")
	out, _ := cmd.CombinedOutput()
	code = cmd.ProcessState.ExitCode()
	pr, _ := os.ReadFile(specFile + ".progress")
	done = strings.Contains(string(pr), "DONE")
	if code != 0 && code != 137 {
		tail := string(out)
		if len(tail) > 1500 {
			tail = tail[len(tail)-1500:]
		}
		return code, done, string(pr) + "\n" + tail, nil
	}
	return code, done, string(pr), nil
}

// TestCrash is the crash worker: for every selected behaviour and every crash point of its last
// step (each at hit counts 1..VERIF_HITS) a child process executes the behaviour and dies there;
// the parent reopens the store and requires the observable state to be the specification's state
// before the last step or after it (an acknowledged step: after it), then writes some more.
func TestCrash(t *testing.T) {
	in := os.Getenv("VERIF_TLC_OUT")
	if in == "" {
		t.Skip("VERIF_TLC_OUT not set")
	}
	start := time.Now()
	stride, offset := envInt("VERIF_STRIDE", 1), envInt("VERIF_OFFSET", 0)
	maxHits := envInt("VERIF_HITS", 2)
	seed := envInt("VERIF_SEED", 1)
	tables := pickTables(os.Getenv("VERIF_TABLES"))
	dir := os.Getenv("VERIF_DIR")
	outf, err := os.Create(os.Getenv("VERIF_RESULT"))
	if err != nil {
		t.Fatal(err)
	}
	defer outf.Close()
	out := bufio.NewWriter(outf)
	defer out.Flush()
	enc := json.NewEncoder(out)
	hdr, _, err := ReadTLC(in, 1<<30, 1<<30-1, func(int, *Behaviour) error { return nil })
	if err != nil || hdr == nil {
		t.Fatalf("no HEADER: %v", err)
	}
	sum := Summary{Summary: true}
	seen := map[string]bool{}
	outcomes := map[string]int{}
	n := 0
	_, _, err = ReadTLC(in, stride, offset, func(idx int, b *Behaviour) error {
		k := len(b.Steps)
		if k == 0 {
			return nil
		}
		last := b.Steps[k-1]
		var points []string
		strict := false // strict: the recovered state must be exactly b.Obs
		switch {
		case last.A == "job" && last.Fault != nil && last.Fault.K == "after":
			points, strict = []string{"pipeline.sinkdone"}, true
		case last.A == "job":
			return nil
		default:
			points = crashPoints[last.A]
		}
		if len(points) == 0 || (b.Pre == nil && !strict) {
			return nil
		}
		sum.Behaviours++
		tb := tables[(idx+seed)%len(tables)]
		all := append([]string{"none"}, points...)
		if !strict {
			// kills at arbitrary instants: a timer in the child ends the process some microseconds into the last step
			rnd := rand.New(rand.NewSource(int64(seed)*1000003 + int64(idx)))
			for k := 0; k < envInt("VERIF_TIMER_KILLS", 0); k++ {
				all = append(all, fmt.Sprintf("timer:%d", 20+rnd.Intn(2500)))
			}
		}
		for _, pt := range all {
			hitsFrom, hitsTo := 1, maxHits
			if strings.HasPrefix(pt, "timer:") {
				hitsFrom, hitsTo = 1, 1
			}
			if strict {
				hitsFrom, hitsTo = last.Fault.N, last.Fault.N
			}
			if pt == "none" {
				if strict {
					continue
				}
				hitsFrom, hitsTo = 1, 1
			}
			for hit := hitsFrom; hit <= hitsTo; hit++ {
				n++
				wdir := filepath.Join(dir, fmt.Sprintf("c%d_%d", offset, n))
				cs := &ChildSpec{Dir: wdir, Header: hdr, B: b, Table: tb.Name, Tag: fmt.Sprintf("b%d", idx), Point: pt, Hit: hit, Flush: idx + seed, Jobs: hdr.Jobs}
				code, done, msg, cerr := runChild(cs, dir)
				if cerr != nil {
					return cerr
				}
				r := Result{Idx: idx, Table: tb.Name, Adapter: fmt.Sprintf("crash@%s#%d", pt, hit), Steps: b.Steps}
				if code != 0 && code != 137 {
					r.Err = fmt.Sprintf("crash child exited %d: %s", code, msg)
					sum.Errors++
					_ = enc.Encode(r)
					_ = os.RemoveAll(wdir)
					continue
				}
				if code == 0 && pt != "none" && !strings.HasPrefix(pt, "timer:") {
					outcomes["point-not-reached"]++
					_ = os.RemoveAll(wdir)
					break // higher hit counts are not reached either
				}
				sum.Replays++
				// recover
				w, oerr := OpenWorld(wdir)
				if oerr != nil {
					r.Divs = append(r.Divs, Divergence{Kind: "reopen", Adapter: r.Adapter, Expected: "the store opens again", Actual: oerr.Error()})
					sum.Diverging++
					_ = enc.Encode(r)
					_ = os.RemoveAll(wdir)
					continue
				}
				check := func(o *Obs, jo []JobObs, relax *Obs) (s *Session, err error) {
					s = NewSession(w, hdr, cs.Tag, tb, GoAdapter{})
					defer func() {
						if rec := recover(); rec != nil {
							// reading the recovered hub must not panic
							s.diverge("panic-after-recovery", nil, "read APIs answer", fmt.Sprint(rec), "")
							err = nil
						}
					}()
					s.NoAt = true
					s.clock = o.Clock
					s.relaxFull = relax
					for len(s.after) <= o.Clock {
						s.after = append(s.after, spinUntilAfter(s.after[len(s.after)-1]))
					}
					if err := s.CheckObs(o); err != nil {
						return s, err
					}
					if jo != nil {
						if err := s.checkJobs(jo); err != nil {
							return s, err
						}
					}
					return s, nil
				}
				var relax *Obs
				if last.A == "compact" && code == 137 {
					relax = b.Pre
				}
				post, perr := check(&b.Obs, b.Jobs, relax)
				sum.Checks += post.Checks
				outcome := "after"
				if perr != nil {
					r.Err = "recovered hub: " + perr.Error()
					sum.Errors++
				} else if len(post.Divs) > 0 {
					acked := done
					if strict || acked || b.Pre == nil {
						r.Divs = post.Divs
					} else {
						prev, perr2 := check(b.Pre, nil, nil)
						sum.Checks += prev.Checks
						if perr2 != nil {
							r.Err = "recovered hub: " + perr2.Error()
							sum.Errors++
						} else if len(prev.Divs) > 0 {
							// neither the state before nor the state after the interrupted step
							for _, d := range post.Divs {
								d.Note = "vs state AFTER the interrupted step; " + d.Note
								d.Alt = "after"
								r.Divs = append(r.Divs, d)
							}
							for _, d := range prev.Divs {
								d.Note = "vs state BEFORE the interrupted step; " + d.Note
								d.Alt = "before"
								r.Divs = append(r.Divs, d)
							}
						} else {
							outcome = "before"
						}
					}
				}
				if len(r.Divs) == 0 && r.Err == "" && last.A == "backup" {
					// a backup run was killed.  (1) The location, as the kill left it, restores to the state of the
					// last COMPLETED run or of the killed one (if it got as far as putting its snapshot in place);
					// (2) the next run succeeds and the location then restores to the hub as it is now.
					mk := func() *Session {
						bs := NewSession(w, hdr, cs.Tag, tb, GoAdapter{})
						bs.NoAt = true
						bs.clock = b.Obs.Clock
						for len(bs.after) <= b.Obs.Clock {
							bs.after = append(bs.after, spinUntilAfter(bs.after[len(bs.after)-1]))
						}
						return bs
					}
					bs := mk()
					if _, serr := os.Stat(filepath.Join(bs.BackupDir(), "datahub-backup.kv")); serr == nil {
						var cands []*Obs
						for i := len(b.Steps) - 1; i >= 0 && len(cands) < 2; i-- {
							if b.Steps[i].A == "backup" && b.Steps[i].Obs != nil {
								cands = append(cands, b.Steps[i].Obs)
							}
						}
						var firstDivs []Divergence
						okAny := false
						for _, c := range cands {
							cs2 := mk()
							cs2.clock = c.Clock
							if rerr := cs2.restoreAndCompare(c); rerr != nil {
								cs2.diverge("restore-after-kill", nil, "the location restores", rerr.Error(), "")
							}
							sum.Checks += cs2.Checks
							if len(cs2.Divs) == 0 {
								okAny = true
								break
							}
							if firstDivs == nil {
								firstDivs = cs2.Divs
							}
						}
						if !okAny && len(firstDivs) > 0 {
							d := firstDivs[0]
							d.Note = "backup location as the killed run left it: neither the previous completed run nor the killed one; " + d.Note
							r.Divs = append(r.Divs, d)
						}
					}
					if len(r.Divs) == 0 {
						func() {
							defer func() {
								if rec := recover(); rec != nil {
									bs.diverge("backup-after-kill", nil, "the next backup run succeeds", fmt.Sprint(rec), "")
								}
							}()
							if berr := bs.backup(); berr != nil {
								bs.diverge("backup-after-kill", nil, "the next backup run succeeds", berr.Error(), "")
							} else if rerr := bs.restoreAndCheck(&b.Obs); rerr != nil {
								bs.diverge("backup-after-kill", nil, "the location restores", rerr.Error(), "")
							}
						}()
						sum.Checks += bs.Checks
						for _, d := range bs.Divs {
							d.Note = "after a killed backup run, restart and one more run; " + d.Note
							r.Divs = append(r.Divs, d)
							break
						}
					}
				}
				if len(r.Divs) == 0 && r.Err == "" {
					// the recovered hub accepts writes: positions keep increasing, nothing is lost
					fs := NewSession(w, hdr, cs.Tag, tb, GoAdapter{})
					fs.followUp(&r)
					sum.Checks += fs.Checks
				}
				outcomes[pt+":"+outcome]++
				w.Destroy()
				key := fmt.Sprintf("%s|%s|%d", stepsJSON(b.Steps), pt, hit)
				if !seen[key] {
					seen[key] = true
					sum.NonTrivial++
				}
				if len(sum.Samples) < 3 {
					sum.Samples = append(sum.Samples, map[string]any{"steps": b.Steps, "crash_at": pt, "hit": hit, "recovered_as": outcome})
				}
				if len(r.Divs) > 0 || r.Err != "" {
					if len(r.Divs) > 0 {
						sum.Diverging++
					}
					_ = enc.Encode(r)
				}
			}
		}
		return nil
	})
	if err != nil {
		t.Fatal(err)
	}
	sum.WallSeconds = time.Since(start).Seconds()
	sum.Tables = []string{fmt.Sprint(outcomes)}
	_ = enc.Encode(sum)
}

var _ = jobs.JobTypeFull
