package engine

import (
	"bufio"
	"encoding/json"
	"fmt"
	"os"
	"path/filepath"
	"sort"
	"strings"
	"testing"
	"time"

	"github.com/mimiro-io/datahub/internal/server"
)

type nsStep struct {
	A     string `json:"a"`
	URI   string `json:"uri"`
	Exp   string `json:"exp"`
	Local string `json:"local"`
}

type nsBehaviour struct {
	Steps []nsStep `json:"steps"`
	Obs   struct {
		Known  []string `json:"known"`
		Stored []string `json:"stored"`
	} `json:"obs"`
}

type nsEvent struct {
	K      string      `json:"k"`
	Exp    string      `json:"exp,omitempty"`
	Prefix string      `json:"prefix,omitempty"`
	Pairs  [][2]string `json:"pairs,omitempty"`
	URI    string      `json:"uri,omitempty"`
	ID     uint64      `json:"id,omitempty"`
	Back   string      `json:"back,omitempty"`
	B      int         `json:"b"` // behaviour index (diagnostics only)
}

func ctxPairs(w *World) [][2]string {
	// a copy is marshalled, like every serialiser of the hub does
	raw, _ := json.Marshal(w.Store.GetGlobalContext(false))
	var c struct {
		Namespaces map[string]string `json:"namespaces"`
	}
	_ = json.Unmarshal(raw, &c)
	var out [][2]string
	for p, e := range c.Namespaces {
		out = append(out, [2]string{p, e})
	}
	sort.Slice(out, func(i, j int) bool { return out[i][0] < out[j][0] })
	return out
}

// TestNamespace executes the operation sequences TLC generated from spec/Namespace.tla, records
// every pair the hub hands out as a trace for spec/TraceNamespace.tla, and compares what the
// specification determines directly (split of the URI, which expansions the context holds).
func TestNamespace(t *testing.T) {
	in := os.Getenv("VERIF_TLC_OUT")
	if in == "" {
		t.Skip("VERIF_TLC_OUT not set")
	}
	start := time.Now()
	stride, offset := envInt("VERIF_STRIDE", 1), envInt("VERIF_OFFSET", 0)
	dir := os.Getenv("VERIF_DIR")
	outf, err := os.Create(os.Getenv("VERIF_RESULT"))
	if err != nil {
		t.Fatal(err)
	}
	defer outf.Close()
	out := bufio.NewWriter(outf)
	defer out.Flush()
	enc := json.NewEncoder(out)
	tf, err := os.Create(os.Getenv("VERIF_TRACE"))
	if err != nil {
		t.Fatal(err)
	}
	defer tf.Close()
	tw := bufio.NewWriter(tf)
	defer tw.Flush()
	tenc := json.NewEncoder(tw)

	sum := Summary{Summary: true}
	f, err := os.Open(in)
	if err != nil {
		t.Fatal(err)
	}
	defer f.Close()
	sc := bufio.NewScanner(f)
	sc.Buffer(make([]byte, 1<<20), 1<<26)
	idx := -1
	for sc.Scan() {
		payload, ok := ParseTLCLine(sc.Text(), "NTRACE")
		if !ok {
			continue
		}
		idx++
		if idx%stride != offset {
			continue
		}
		b := &nsBehaviour{}
		if err := json.Unmarshal(payload, b); err != nil {
			t.Fatal(err)
		}
		sum.Behaviours++
		sum.Replays++
		w, err := OpenWorld(filepath.Join(dir, fmt.Sprintf("ns%d_%d", offset, idx)))
		if err != nil {
			t.Fatal(err)
		}
		r := Result{Idx: idx, Adapter: "go"}
		emit := func(e nsEvent) { e.B = idx; _ = tenc.Encode(e) }
		emit(nsEvent{K: "reset"})
		ds, _ := w.Dsm.CreateDataset("nsdata", nil)
		for _, st := range b.Steps {
			switch st.A {
			case "restart":
				if err := w.Restart(); err != nil {
					t.Fatal(err)
				}
				ds = w.Dsm.GetDataset("nsdata")
			case "storetxn":
				// the same (possibly never seen) identifier in two datasets of one transaction, written as full URIs
				// the way a transaction payload carries them
				_, _ = w.Dsm.CreateDataset("nsdata2", nil)
				mk := func() *server.Entity {
					curie, err := w.Store.GetNamespacedIdentifier(st.URI, map[string]string{})
					if err != nil {
						return nil
					}
					return server.NewEntity(curie, 0)
				}
				e1, e2 := mk(), mk()
				sum.Checks++
				if e1 == nil || e2 == nil {
					r.Divs = append(r.Divs, Divergence{Kind: "curie", Query: st.URI, Expected: "a CURIE", Actual: "error"})
					continue
				}
				if i := strings.Index(e1.ID, ":"); i > 0 {
					emit(nsEvent{K: "ns", Exp: st.Exp, Prefix: e1.ID[:i]})
				}
				txn := &server.Transaction{DatasetEntities: map[string][]*server.Entity{"nsdata": {e1}, "nsdata2": {e2}}}
				if err := w.Store.ExecuteTransaction(txn); err != nil {
					r.Divs = append(r.Divs, Divergence{Kind: "store", Query: st.URI, Expected: "stored", Actual: err.Error()})
					continue
				}
				emit(nsEvent{K: "id", URI: st.URI, ID: e1.InternalID})
				emit(nsEvent{K: "id", URI: st.URI, ID: e2.InternalID})
				for _, dn := range []string{"nsdata", "nsdata2"} {
					if ent, err := w.Store.GetEntity(st.URI, []string{dn}, true); err == nil && ent != nil && ent.InternalID != 0 {
						emit(nsEvent{K: "id", URI: st.URI, ID: ent.InternalID})
					} else {
						r.Divs = append(r.Divs, Divergence{Kind: "stored-id", Query: st.URI, Expected: "entity found by its URI in " + dn, Actual: fmt.Sprint(err)})
					}
				}
			case "payload":
				// the payload binds a prefix the hub uses for something else (ns0 / ns1: the hub's own core
				// namespaces, or the newest prefix handed out) to this URI's expansion
				for _, local := range []string{"ns1", fmt.Sprintf("ns%d", len(ctxPairs(w))-1)} {
					doc := fmt.Sprintf(`[{"id":"@context","namespaces":{%q:%q}},{"id":%q,"props":{},"refs":{}}]`, local, st.Exp, local+":"+st.Local)
					var parsed []*server.Entity
					perr := server.NewEntityStreamParser(w.Store).ParseStream(strings.NewReader(doc), func(e *server.Entity) error {
						parsed = append(parsed, e)
						return nil
					})
					sum.Checks++
					if perr != nil || len(parsed) != 1 {
						r.Divs = append(r.Divs, Divergence{Kind: "payload", Query: doc, Expected: "one entity", Actual: fmt.Sprint(perr, len(parsed))})
						continue
					}
					curie := parsed[0].ID
					i := strings.Index(curie, ":")
					if i < 0 || curie[i+1:] != st.Local {
						r.Divs = append(r.Divs, Divergence{Kind: "payload", Query: doc, Expected: "<prefix>:" + st.Local, Actual: curie})
						continue
					}
					emit(nsEvent{K: "ns", Exp: st.Exp, Prefix: curie[:i]})
					back, err := w.Store.ExpandCurie(curie)
					if err != nil {
						back = "error: " + err.Error()
					}
					emit(nsEvent{K: "rt", URI: st.URI, Back: back})
					if err := ds.StoreEntities(parsed); err != nil {
						r.Divs = append(r.Divs, Divergence{Kind: "store", Query: st.URI, Expected: "stored", Actual: err.Error()})
						continue
					}
					emit(nsEvent{K: "id", URI: st.URI, ID: parsed[0].InternalID})
				}
			case "curie", "store":
				curie, err := w.Store.GetNamespacedIdentifierFromURI(st.URI)
				sum.Checks++
				if err != nil {
					r.Divs = append(r.Divs, Divergence{Kind: "curie", Query: st.URI, Expected: "a CURIE", Actual: err.Error()})
					continue
				}
				i := strings.Index(curie, ":")
				if i < 0 || curie[i+1:] != st.Local {
					r.Divs = append(r.Divs, Divergence{Kind: "curie", Query: st.URI, Expected: "<prefix>:" + st.Local, Actual: curie})
					continue
				}
				emit(nsEvent{K: "ns", Exp: st.Exp, Prefix: curie[:i]})
				back, err := w.Store.ExpandCurie(curie)
				if err != nil {
					back = "error: " + err.Error()
				}
				emit(nsEvent{K: "rt", URI: st.URI, Back: back})
				if st.A == "store" {
					e := server.NewEntity(curie, 0)
					if err := ds.StoreEntities([]*server.Entity{e}); err != nil {
						r.Divs = append(r.Divs, Divergence{Kind: "store", Query: st.URI, Expected: "stored", Actual: err.Error()})
						continue
					}
					emit(nsEvent{K: "id", URI: st.URI, ID: e.InternalID})
				}
			}
			emit(nsEvent{K: "ctxall", Pairs: ctxPairs(w)})
			// ids of everything stored so far resolve to the same id (also after restarts)
			for _, u := range b.Steps {
				if u.A != "store" && u.A != "payload" && u.A != "storetxn" {
					continue
				}
				if ent, err := w.Store.GetEntity(u.URI, []string{"nsdata"}, true); err == nil && ent != nil && ent.InternalID != 0 {
					emit(nsEvent{K: "id", URI: u.URI, ID: ent.InternalID})
				}
			}
		}
		// what the specification determines: the context holds every asserted expansion
		have := map[string]bool{}
		for _, p := range ctxPairs(w) {
			have[p[1]] = true
		}
		for _, e := range b.Obs.Known {
			sum.Checks++
			if !have[e] {
				r.Divs = append(r.Divs, Divergence{Kind: "context", Query: e, Expected: "expansion present in the context", Actual: "absent"})
			}
		}
		for _, u := range b.Obs.Stored {
			sum.Checks++
			ent, err := w.Store.GetEntity(u, []string{"nsdata"}, true)
			if err != nil || ent == nil {
				r.Divs = append(r.Divs, Divergence{Kind: "stored-id", Query: u, Expected: "entity found by its URI", Actual: fmt.Sprint(err)})
			}
		}
		w.Destroy()
		if len(b.Steps) > 0 {
			sum.NonTrivial++
		}
		if len(sum.Samples) < 3 && len(b.Steps) > 2 {
			sum.Samples = append(sum.Samples, b.Steps)
		}
		if len(r.Divs) > 0 {
			sum.Diverging++
			_ = enc.Encode(r)
		}
	}
	sum.WallSeconds = time.Since(start).Seconds()
	_ = enc.Encode(sum)
}

// TestNamespaceStress runs, for VERIF_SECONDS, goroutines that introduce new namespaces and new
// identifiers (through writes) concurrently with goroutines that read and serialise contexts and
// expand CURIEs.  Every answer is recorded; the process itself must survive.
func TestNamespaceStress(t *testing.T) {
	tracePath := os.Getenv("VERIF_TRACE")
	if tracePath == "" || os.Getenv("VERIF_SECONDS") == "" {
		t.Skip("not a stress run")
	}
	secs := envInt("VERIF_SECONDS", 3)
	w, err := OpenWorld(os.Getenv("VERIF_DIR"))
	if err != nil {
		t.Fatal(err)
	}
	defer w.Destroy()
	ds, _ := w.Dsm.CreateDataset("stress", nil)
	ds2, _ := w.Dsm.CreateDataset("stress2", nil)
	deadline := time.Now().Add(time.Duration(secs) * time.Second)
	const writers, readers = 3, 6
	logs := make([][]nsEvent, writers+readers)
	done := make(chan int, writers+readers)
	for g := 0; g < writers; g++ {
		go func(g int) {
			defer func() { done <- g }()
			target := ds
			if g%2 == 1 {
				target = ds2
			}
			for i := 0; time.Now().Before(deadline); i++ {
				// a bounded pool of namespaces: new ones first, then re-assertions of known ones
				exp := fmt.Sprintf("http://stress.test/w%d/n%d/", g, i%120)
				uri := exp + "item"
				curie, err := w.Store.GetNamespacedIdentifierFromURI(uri)
				if err != nil {
					continue
				}
				k := strings.Index(curie, ":")
				if i < 600 {
					logs[g] = append(logs[g], nsEvent{K: "ns", Exp: exp, Prefix: curie[:k]})
				}
				if i >= 240 {
					continue
				}
				e := server.NewEntity(curie, 0)
				if err := target.StoreEntities([]*server.Entity{e}); err == nil {
					logs[g] = append(logs[g], nsEvent{K: "id", URI: uri, ID: e.InternalID})
				}
				back, err := w.Store.ExpandCurie(curie)
				if err == nil {
					logs[g] = append(logs[g], nsEvent{K: "rt", URI: uri, Back: back})
				}
			}
		}(g)
	}
	for g := writers; g < writers+readers; g++ {
		go func(g int) {
			defer func() { done <- g }()
			n := 0
			for time.Now().Before(deadline) {
				n++
				switch g % 3 {
				case 0:
					pairs := ctxPairs(w)
					if n%400 == 0 && len(logs[g]) < 40 {
						logs[g] = append(logs[g], nsEvent{K: "ctx", Pairs: pairs})
					}
				case 1:
					_, _ = json.Marshal(ds.GetContext())
					_, _ = json.Marshal(w.Store.GetGlobalContext(true))
				case 2:
					if res, err := ds.GetEntities("", 5); err == nil {
						_, _ = json.Marshal(res.Context)
					}
				}
			}
		}(g)
	}
	for i := 0; i < writers+readers; i++ {
		<-done
	}
	// rounds: goroutines released together introduce DIFFERENT new namespaces (and ids), then the hub is
	// restarted and, before anything is asserted again, every pair handed out so far must still expand,
	// be in the context, and every stored URI must still resolve to the id it was given
	var rounds []nsEvent
	type handed struct{ exp, prefix, uri string }
	var all []handed
	for round := 0; round < envInt("VERIF_ROUNDS", 60); round++ {
		const par = 8
		res := make([][]nsEvent, par)
		got := make([]handed, par)
		start := make(chan struct{})
		fin := make(chan int, par)
		rds := w.Dsm.GetDataset("stress")
		for g := 0; g < par; g++ {
			go func(g int) {
				defer func() { fin <- g }()
				exp := fmt.Sprintf("http://rounds.test/r%d/g%d/", round, g)
				uri := exp + "item"
				<-start
				curie, err := w.Store.GetNamespacedIdentifierFromURI(uri)
				if err != nil {
					return
				}
				k := strings.Index(curie, ":")
				got[g] = handed{exp, curie[:k], uri}
				res[g] = append(res[g], nsEvent{K: "ns", Exp: exp, Prefix: curie[:k]})
				if g%2 == 1 {
					return
				}
				e := server.NewEntity(curie, 0)
				if err := rds.StoreEntities([]*server.Entity{e}); err == nil {
					res[g] = append(res[g], nsEvent{K: "id", URI: uri, ID: e.InternalID})
				}
			}(g)
		}
		close(start)
		for g := 0; g < par; g++ {
			<-fin
		}
		for g := 0; g < par; g++ {
			rounds = append(rounds, res[g]...)
			if got[g].exp != "" {
				all = append(all, got[g])
			}
		}
		// what a restart (or crash) at this quiescent instant would load
		st := &server.NamespacesState{}
		if err := w.Store.GetObject(server.NamespacesIndex, "namespacestate", st); err == nil {
			var pp [][2]string
			for p, e := range st.PrefixToExpansionMapping {
				pp = append(pp, [2]string{p, e})
			}
			sort.Slice(pp, func(i, j int) bool { return pp[i][0] < pp[j][0] })
			rounds = append(rounds, nsEvent{K: "ctxall", Pairs: pp})
		}
		if round%5 != 4 {
			continue
		}
		if err := w.Restart(); err != nil {
			t.Fatal(err)
		}
		rounds = append(rounds, nsEvent{K: "ctxall", Pairs: ctxPairs(w)})
		for _, h := range all[max(0, len(all)-3*par):] {
			back, err := w.Store.ExpandCurie(h.prefix + ":item")
			if err != nil {
				back = "error: " + err.Error()
			}
			rounds = append(rounds, nsEvent{K: "rt", URI: h.uri, Back: back})
			if ent, err := w.Store.GetEntity(h.uri, []string{"stress"}, true); err == nil && ent != nil && ent.InternalID != 0 {
				rounds = append(rounds, nsEvent{K: "id", URI: h.uri, ID: ent.InternalID})
			}
		}
	}
	logs = append(logs, rounds)
	f, err := os.Create(tracePath)
	if err != nil {
		t.Fatal(err)
	}
	defer f.Close()
	enc := json.NewEncoder(f)
	_ = enc.Encode(nsEvent{K: "reset", B: -1})
	for _, l := range logs {
		for _, e := range l {
			e.B = -1
			_ = enc.Encode(e)
		}
	}
}
