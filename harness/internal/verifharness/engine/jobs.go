package engine

import (
	"encoding/base64"
	"encoding/json"
	"fmt"
	"io"
	"net/http"
	"net/http/httptest"
	"strconv"
	"sync"

	"github.com/mimiro-io/datahub/internal/jobs"
	"github.com/mimiro-io/datahub/internal/server"
)

var xfCode = map[string]string{
	"identity": `function transform_entities(entities) { return entities; }`,
	"dup": `function transform_entities(entities) {
		var r = [];
		for (e of entities) { r.push(e); r.push(e); }
		return r; }`,
	// every entity is built anew in JavaScript (NewEntity) from the one handed in: abstractly the identity
	"create": `function transform_entities(entities) {
		var r = [];
		for (e of entities) {
			var n = NewEntity();
			n.ID = e.ID; n.IsDeleted = e.IsDeleted; n.Recorded = e.Recorded;
			for (k in e.Properties) { n.Properties[k] = e.Properties[k]; }
			for (k in e.References) { n.References[k] = e.References[k]; }
			r.push(n);
		}
		return r; }`,
	// in place: the array the hub handed over is changed and returned
	"pushfirst":   `function transform_entities(entities) { if (entities.length > 0) { entities.push(entities[0]); } return entities; }`,
	"unshiftlast": `function transform_entities(entities) { if (entities.length > 0) { entities.unshift(entities[entities.length-1]); } return entities; }`,
	"popdrop":     `function transform_entities(entities) { entities.pop(); return entities; }`,
	"dropdel": `function transform_entities(entities) {
		var r = [];
		for (e of entities) { if (!e.IsDeleted) { r.push(e); } }
		return r; }`,
}

var (
	echoOnce sync.Once
	echoSrv  *httptest.Server
)

func echoService() string {
	echoOnce.Do(func() {
		echoSrv = httptest.NewServer(http.HandlerFunc(func(w http.ResponseWriter, r *http.Request) {
			body, _ := io.ReadAll(r.Body)
			w.Header().Set("Content-Type", "application/json")
			_, _ = w.Write(body)
		}))
	})
	return echoSrv.URL
}

func (s *Session) jobID(ji int) string { return fmt.Sprintf("job%d-%s", ji, s.Tag) }

// jobConfig renders job definition ji (1-based) as a real job configuration.
func (s *Session) jobConfig(ji int) *jobs.JobConfiguration {
	d := s.H.Jobs[ji-1]
	cfg := &jobs.JobConfiguration{ID: s.jobID(ji), Title: s.jobID(ji), BatchSize: d.Batch}
	if len(d.Src) == 1 {
		cfg.Source = map[string]interface{}{"Type": "DatasetSource", "Name": s.DsReal(d.Src[0]), "LatestOnly": d.Lo}
	} else {
		var members []interface{}
		for _, n := range d.Src {
			members = append(members, map[string]interface{}{"Name": s.DsReal(n), "LatestOnly": d.Lo})
		}
		cfg.Source = map[string]interface{}{"Type": "UnionDatasetSource", "DatasetSources": members}
	}
	cfg.Sink = map[string]interface{}{"Type": "DatasetSink", "Name": s.DsReal(d.Sink)}
	if d.Xf == "http" || d.Xf == "httpctx" {
		// an external transform service that answers with what it was sent (with and without the namespace context
		// as first element): abstractly the identity
		cfg.Transform = map[string]interface{}{"Type": "HttpTransform", "Url": echoService(), "SupportContext": d.Xf == "httpctx"}
	}
	if code, ok := xfCode[d.Xf]; ok {
		par := d.Par
		if par < 1 {
			par = 1
		}
		cfg.Transform = map[string]interface{}{"Type": "JavascriptTransform",
			"Code": base64.StdEncoding.EncodeToString([]byte(code)), "Parallelism": float64(par)}
	}
	cfg.Triggers = []jobs.JobTrigger{{TriggerType: jobs.TriggerTypeCron, JobType: jobs.JobTypeIncremental, Schedule: "0 0 1 1 *"}}
	return cfg
}

// preassertIDs fixes the order of internal ids of the entity universe (header order), which is
// the order in which a completed full sync writes its deletions.
func (s *Session) preassertIDs() error {
	for _, e := range s.H.Ent {
		id, err := s.W.Store.VerifAssertID(s.EntCurie(e))
		if err != nil {
			return err
		}
		s.ids[e] = id
	}
	return nil
}

func parseTokens(tok string, members int) ([]uint64, error) {
	out := make([]uint64, members)
	if tok == "" {
		return out, nil
	}
	if members == 1 {
		n, err := strconv.ParseUint(tok, 10, 64)
		if err != nil {
			return nil, fmt.Errorf("token %q: %v", tok, err)
		}
		out[0] = n
		return out, nil
	}
	var u struct {
		Tokens []struct{ Token string }
	}
	if err := json.Unmarshal([]byte(tok), &u); err != nil {
		return nil, fmt.Errorf("token %q: %v", tok, err)
	}
	for i := range out {
		if i < len(u.Tokens) && u.Tokens[i].Token != "" {
			n, err := strconv.ParseUint(u.Tokens[i].Token, 10, 64)
			if err != nil {
				return nil, fmt.Errorf("token %q: %v", tok, err)
			}
			out[i] = n
		}
	}
	return out, nil
}

func sameTokens(a, b []uint64) bool {
	if len(a) != len(b) {
		return false
	}
	for i := range a {
		if a[i] != b[i] {
			return false
		}
	}
	return true
}

// runJob executes one job step: a complete synchronous run with the step's fault injected.
func (s *Session) runJob(st *Step) error {
	d := s.H.Jobs[st.J-1]
	cfg := s.jobConfig(st.J)
	sched := s.W.Sched()
	if !s.jobAdded[st.J] {
		if err := sched.AddJob(cfg); err != nil {
			return fmt.Errorf("AddJob: %w", err)
		}
		if s.jobAdded == nil {
			s.jobAdded = map[int]bool{}
		}
		s.jobAdded[st.J] = true
	}
	f := jobs.VerifFault{}
	if st.Fault != nil && st.Fault.K != "none" {
		f = jobs.VerifFault{Kind: st.Fault.K, N: st.Fault.N}
	}
	run, err := sched.VerifRunSync(cfg, st.Type, f)
	if err != nil {
		return err
	}
	q := map[string]any{"job": d, "type": st.Type, "fault": st.Fault}
	if run.Panic != "" {
		// a panic in a job run takes the hub process down (jobrunner re-panics)
		s.Checks++
		s.diverge("job-panic", q, "run ends as success, failure or kill", "panic: "+run.Panic, "")
		s.tick(1, 0)
		return nil
	}
	// 1. the exact sequence of batches handed to the sink
	s.Checks++
	var exp, got [][]CEntity
	for _, c := range st.Calls {
		exp = append(exp, s.expectItems(c))
	}
	for _, c := range run.Calls {
		got = append(got, canonAll(c))
	}
	same := len(exp) == len(got)
	for i := 0; same && i < len(exp); i++ {
		same = sameSeq(exp[i], got[i])
	}
	if !same {
		s.diverge("job-sink-calls", q, exp, got, "")
	}
	// 2. a recorded outcome of the right class; run slot released
	s.Checks++
	if !run.HasResult {
		s.diverge("job-result", q, "a stored run result", "none", "")
	} else if (st.Outcome == "ok") != (run.LastError == "") {
		s.diverge("job-result", q, st.Outcome, run.LastError, "outcome class")
	} else if st.Outcome == "ok" && run.Processed != st.Processed {
		s.diverge("job-result", q, st.Processed, run.Processed, "processed count")
	}
	if run.Running != 0 || run.TicketsI != s.W.Env.RunnerConfig.PoolIncremental || run.TicketsF != s.W.Env.RunnerConfig.PoolFull {
		s.diverge("job-slot", q, "all run slots released", run, "")
	}
	// 3. the persisted continuation token(s)
	s.Checks++
	toks, err := parseTokens(run.Token, len(d.Src))
	if err != nil {
		s.diverge("job-token", q, st.Tok, run.Token, err.Error())
	} else if !sameTokens(toks, st.Tok) {
		s.diverge("job-token", q, st.Tok, toks, "")
	}
	s.tick(1, 0)
	s.NonTriv = true
	return nil
}

// checkJobs compares the persisted job state at the end of a behaviour.
func (s *Session) checkJobs(jo []JobObs) error {
	for i, o := range jo {
		st, err := s.W.Sched().GetJobState(s.jobID(i + 1))
		if err != nil {
			return err
		}
		s.Checks++
		toks, err := parseTokens(st.ContinuationToken, len(s.H.Jobs[i].Src))
		if err != nil || !sameTokens(toks, o.Tok) {
			s.diverge("job-state", map[string]any{"job": i + 1}, o.Tok, st.ContinuationToken, "")
		}
	}
	return nil
}

var _ = server.NewEntity
