package engine

import (
	"context"
	"fmt"
	"net/http"
	"os"
	"time"

	"github.com/DataDog/datadog-go/v5/statsd"
	"go.uber.org/zap"

	"github.com/mimiro-io/datahub/internal/conf"
	"github.com/mimiro-io/datahub/internal/jobs"
	"github.com/mimiro-io/datahub/internal/server"
	"github.com/mimiro-io/datahub/internal/web"
)

const (
	EntNS  = "http://verif.test/e/"
	PredNS = "http://verif.test/r/"
	PropNS = "http://verif.test/p/"
)

// World is one real hub instance (store + dataset manager) on a directory.
type World struct {
	Dir   string
	Env   *conf.Config
	Store *server.Store
	Dsm   *server.DsManager

	EntP, PredP, PropP string // curie prefixes of the three harness namespaces

	Gen int // incremented by every (re)open

	sched *jobs.Scheduler
	web   http.Handler
}

// Web returns the hub's HTTP router with all routes and middleware (security disabled: "noop").
func (w *World) Web() (http.Handler, error) {
	if w.web == nil {
		env := *w.Env
		env.Auth = &conf.AuthConfig{Middleware: "noop"}
		ws, err := web.NewWebService(&web.ServiceContext{
			Env: &env, Logger: env.Logger, Statsd: &statsd.NoOpClient{}, DatasetManager: w.Dsm, Store: w.Store,
			EventBus: server.NoOpBus(), JobsScheduler: w.Sched(), Port: "0",
		})
		if err != nil {
			return nil, err
		}
		w.web = ws.VerifHandler()
	}
	return w.web, nil
}

// Sched returns the hub's job scheduler (created on first use after every (re)open).
func (w *World) Sched() *jobs.Scheduler {
	if w.sched == nil {
		runner := jobs.NewRunner(w.Env, w.Store, nil, server.NoOpBus(), &statsd.NoOpClient{})
		w.sched = jobs.NewScheduler(w.Env, w.Store, w.Dsm, runner)
	}
	return w.sched
}

func NewEnv(dir string) *conf.Config {
	return &conf.Config{
		Logger:               zap.NewNop().Sugar(),
		StoreLocation:        dir,
		FullsyncLeaseTimeout: time.Hour,
		RunnerConfig:         &conf.RunnerConfig{PoolIncremental: 4, PoolFull: 4, Concurrent: 1},
	}
}

// OpenWorld opens (or re-opens) a hub on dir.
func OpenWorld(dir string) (*World, error) {
	w := &World{Dir: dir, Env: NewEnv(dir)}
	if err := w.open(); err != nil {
		return nil, err
	}
	return w, nil
}

func (w *World) open() error {
	w.Gen++
	w.web = nil
	if w.sched != nil {
		_ = w.sched.Stop(context.Background())
		w.sched = nil
	}
	w.Store = server.NewStore(w.Env, &statsd.NoOpClient{})
	w.Dsm = server.NewDsManager(w.Env, w.Store, server.NoOpBus())
	var err error
	if w.EntP, err = w.Store.NamespaceManager.AssertPrefixMappingForExpansion(EntNS); err != nil {
		return err
	}
	if w.PredP, err = w.Store.NamespaceManager.AssertPrefixMappingForExpansion(PredNS); err != nil {
		return err
	}
	if w.PropP, err = w.Store.NamespaceManager.AssertPrefixMappingForExpansion(PropNS); err != nil {
		return err
	}
	return nil
}

// Restart closes the hub and opens it again on the same directory.
func (w *World) Restart() error {
	if err := w.Store.Close(); err != nil {
		return fmt.Errorf("close: %w", err)
	}
	return w.open()
}

func (w *World) Close() {
	if w.sched != nil {
		_ = w.sched.Stop(context.Background())
		w.sched = nil
	}
	_ = w.Store.Close()
}

func (w *World) Destroy() {
	w.Close()
	_ = os.RemoveAll(w.Dir)
}

// spinUntilAfter returns a wall-clock instant strictly greater than t.
func spinUntilAfter(t int64) int64 {
	for {
		n := time.Now().UnixNano()
		if n > t {
			return n
		}
	}
}
