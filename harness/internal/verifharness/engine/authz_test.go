package engine

import (
	"bufio"
	"bytes"
	"crypto/rand"
	"crypto/rsa"
	"encoding/json"
	"fmt"
	"net/http"
	"net/http/httptest"
	"net/url"
	"os"
	"path/filepath"
	"sort"
	"strings"
	"sync"
	"testing"
	"time"

	"github.com/DataDog/datadog-go/v5/statsd"
	"github.com/golang-jwt/jwt/v4"

	"github.com/mimiro-io/datahub/internal/conf"
	"github.com/mimiro-io/datahub/internal/security"
	"github.com/mimiro-io/datahub/internal/server"
	"github.com/mimiro-io/datahub/internal/web"
)

// securedHub is a hub with local security switched on (real JWT middleware and authorizer).
type securedHub struct {
	w       *World
	core    *security.ServiceCore
	ws      *web.WebService
	handler http.Handler
	env     *conf.Config
	other   *rsa.PrivateKey
}

func writeNodeKeys(dir string) error {
	if err := os.MkdirAll(dir, 0o755); err != nil {
		return err
	}
	if _, err := os.Stat(filepath.Join(dir, "node_key")); err == nil {
		return nil
	}
	key, err := rsa.GenerateKey(rand.Reader, 2048) // the hub itself would generate a 4096-bit key (slow)
	if err != nil {
		return err
	}
	priv, err := security.ExportRsaPrivateKeyAsPem(key)
	if err != nil {
		return err
	}
	pub, err := security.ExportRsaPublicKeyAsPem(&key.PublicKey)
	if err != nil {
		return err
	}
	if err := os.WriteFile(filepath.Join(dir, "node_key"), []byte(priv), 0o600); err != nil {
		return err
	}
	return os.WriteFile(filepath.Join(dir, "node_key.pub"), []byte(pub), 0o600)
}

func newSecuredHub(dir string) (*securedHub, error) {
	w, err := OpenWorld(filepath.Join(dir, "store"))
	if err != nil {
		return nil, err
	}
	env := *w.Env
	env.Auth = &conf.AuthConfig{Middleware: "local"}
	env.AdminUserName, env.AdminPassword = "admin", "secret"
	env.NodeID = "verifnode"
	env.SecurityStorageLocation = filepath.Join(dir, "security")
	if err := writeNodeKeys(env.SecurityStorageLocation); err != nil {
		return nil, err
	}
	core := security.NewServiceCore(&env)
	tp := security.NewTokenProviders(env.Logger, security.NewProviderManager(&env, w.Store, env.Logger), core)
	ws, err := web.NewWebService(&web.ServiceContext{
		Env: &env, Logger: env.Logger, Statsd: &statsd.NoOpClient{}, SecurityCore: core, DatasetManager: w.Dsm,
		Store: w.Store, EventBus: server.NoOpBus(), JobsScheduler: w.Sched(), Port: "0", TokenProviders: tp,
	})
	if err != nil {
		return nil, err
	}
	other, _ := rsa.GenerateKey(rand.Reader, 2048)
	return &securedHub{w: w, core: core, ws: ws, handler: ws.VerifHandler(), env: &env, other: other}, nil
}

// token mints a bearer token of the given kind for subject with the given role.
func (h *securedHub) token(kind, role, subject string) string {
	node := "node:" + h.env.NodeID
	claims := security.CustomClaims{Roles: []string{role}}
	claims.RegisteredClaims = jwt.RegisteredClaims{
		ExpiresAt: jwt.NewNumericDate(time.Now().Add(10 * time.Minute)),
		Issuer:    node, Audience: jwt.ClaimStrings{node}, Subject: subject,
	}
	key := h.core.GetActiveKeyPair().PrivateKey
	var method jwt.SigningMethod = jwt.SigningMethodRS256
	switch kind {
	case "absent":
		return ""
	case "garbage":
		return "Bearer not.a.jwt"
	case "expired":
		claims.ExpiresAt = jwt.NewNumericDate(time.Now().Add(-time.Minute))
	case "wrongkey":
		key = h.other
	case "wrongissuer":
		claims.Issuer = "node:someoneelse"
	case "wrongaudience":
		claims.Audience = jwt.ClaimStrings{"node:someoneelse"}
	case "noaudience":
		claims.Audience = nil
	case "noissuer":
		claims.Issuer = ""
	case "rs512":
		method = jwt.SigningMethodRS512
	case "hs256":
		// symmetric signature with the PUBLIC key as secret (classic algorithm confusion)
		pub, _ := security.ExportRsaPublicKeyAsPem(h.core.GetActiveKeyPair().PublicKey)
		s, _ := jwt.NewWithClaims(jwt.SigningMethodHS256, claims).SignedString([]byte(pub))
		return "Bearer " + s
	case "none":
		s, _ := jwt.NewWithClaims(jwt.SigningMethodNone, claims).SignedString(jwt.UnsafeAllowNoneSignatureType)
		return "Bearer " + s
	}
	s, err := jwt.NewWithClaims(method, claims).SignedString(key)
	if err != nil {
		return "Bearer error-" + err.Error()
	}
	return "Bearer " + s
}

func (h *securedHub) do(method, path, bearer string) (int, string) {
	var body *bytes.Reader
	if method == http.MethodGet || method == http.MethodDelete {
		body = bytes.NewReader(nil)
	} else {
		body = bytes.NewReader([]byte(`[]`))
	}
	req := httptest.NewRequest(method, path, body)
	req.Header.Set("Content-Type", "application/json")
	if bearer != "" {
		req.Header.Set("Authorization", bearer)
	}
	rec := httptest.NewRecorder()
	h.handler.ServeHTTP(rec, req)
	return rec.Code, rec.Body.String()
}

// AuthzUniverse is written by TestAuthzRoutes and completed by the python driver.
type AuthzUniverse struct {
	Requests []struct {
		ID     int    `json:"id"`
		Method string `json:"method"`
		Path   string `json:"path"`
		Open   bool   `json:"open"`
	} `json:"requests"`
	Entries []struct {
		ID     int    `json:"id"`
		Res    string `json:"res"`
		Action string `json:"action"`
		Deny   bool   `json:"deny"`
	} `json:"entries"`
}

// TestAuthzRoutes lists the routes the real router registers (VERIF_ROUTES_OUT).
func TestAuthzRoutes(t *testing.T) {
	outp := os.Getenv("VERIF_ROUTES_OUT")
	if outp == "" {
		t.Skip("VERIF_ROUTES_OUT not set")
	}
	h, err := newSecuredHub(os.Getenv("VERIF_DIR"))
	if err != nil {
		t.Fatal(err)
	}
	defer h.w.Destroy()
	routes := h.ws.VerifRoutes()
	sort.Slice(routes, func(i, j int) bool { return routes[i].Path+routes[i].Method < routes[j].Path+routes[j].Method })
	raw, _ := json.MarshalIndent(routes, "", " ")
	if err := os.WriteFile(outp, raw, 0o644); err != nil {
		t.Fatal(err)
	}
}

func statusClass(code int, body string) string {
	switch {
	case code == 401:
		return "401"
	case code == 400 && strings.Contains(body, "missing or malformed jwt"):
		return "401" // how the JWT middleware reports a missing token
	case code == 403:
		return "403"
	}
	return "served"
}

// TestAuthz sends every case TLC enumerated from spec/Authz.tla through the real router with the
// real JWT middleware and authorizer and compares the decision class.
func TestAuthz(t *testing.T) {
	in := os.Getenv("VERIF_TLC_OUT")
	if in == "" || os.Getenv("VERIF_UNIVERSE") == "" {
		t.Skip("VERIF_TLC_OUT / VERIF_UNIVERSE not set")
	}
	start := time.Now()
	stride, offset := envInt("VERIF_STRIDE", 1), envInt("VERIF_OFFSET", 0)
	raw, err := os.ReadFile(os.Getenv("VERIF_UNIVERSE"))
	if err != nil {
		t.Fatal(err)
	}
	uni := &AuthzUniverse{}
	if err := json.Unmarshal(raw, uni); err != nil {
		t.Fatal(err)
	}
	outf, err := os.Create(os.Getenv("VERIF_RESULT"))
	if err != nil {
		t.Fatal(err)
	}
	defer outf.Close()
	out := bufio.NewWriter(outf)
	defer out.Flush()
	enc := json.NewEncoder(out)
	h, err := newSecuredHub(filepath.Join(os.Getenv("VERIF_DIR"), fmt.Sprintf("az%d", offset)))
	if err != nil {
		t.Fatal(err)
	}
	defer func() { h.w.Destroy() }()
	hubNo := 0
	_, _ = h.w.Dsm.CreateDataset("a", nil)
	_, _ = h.w.Dsm.CreateDataset("b", nil)
	tokens := map[string]string{}
	sum := Summary{Summary: true}
	f, err := os.Open(in)
	if err != nil {
		t.Fatal(err)
	}
	defer f.Close()
	sc := bufio.NewScanner(f)
	sc.Buffer(make([]byte, 1<<20), 1<<26)
	idx := -1
	seen := map[string]bool{}
	for sc.Scan() {
		payload, ok := ParseTLCLine(sc.Text(), "ACASE")
		if !ok {
			continue
		}
		idx++
		if idx%stride != offset {
			continue
		}
		var c struct {
			Req  int    `json:"req"`
			Tok  string `json:"tok"`
			Role string `json:"role"`
			Acl  []int  `json:"acl"`
			D    string `json:"d"`
			List []string `json:"list"`
		}
		if err := json.Unmarshal(payload, &c); err != nil {
			t.Fatal(err)
		}
		key := string(payload)
		if seen[key] {
			continue
		}
		seen[key] = true
		sum.Behaviours++
		sum.Replays++
		sum.NonTrivial++
		rq := uni.Requests[c.Req-1]
		var acl []*security.AccessControl
		for _, id := range c.Acl {
			e := uni.Entries[id-1]
			acl = append(acl, &security.AccessControl{Resource: e.Res, Action: e.Action, Deny: e.Deny})
		}
		subject := "client1"
		if c.Role == "admin" {
			subject = "admin"
		}
		if c.Role == "client" {
			if len(acl) > 0 {
				h.core.SetClientAccessControls(subject, acl)
			} else {
				h.core.DeleteClientAccessControls(subject)
			}
		}
		tk, ok := tokens[c.Tok+c.Role]
		if !ok {
			tk = h.token(c.Tok, c.Role, subject)
			tokens[c.Tok+c.Role] = tk
		}
		names := len(h.w.Dsm.GetDatasetNames())
		code, body := h.do(rq.Method, rq.Path, tk)
		got := statusClass(code, body)
		sum.Checks++
		r := Result{Idx: idx, Adapter: "http"}
		if got != c.D {
			r.Divs = append(r.Divs, Divergence{Kind: "authz", Adapter: "http",
				Query:    map[string]any{"method": rq.Method, "path": rq.Path, "token": c.Tok, "role": c.Role, "acl": acl},
				Expected: c.D, Actual: fmt.Sprintf("%s (HTTP %d)", got, code)})
		} else if got == "served" && rq.Method == "GET" && rq.Path == "/datasets" && code == 200 {
			// what the list shows: exactly the datasets whose own path the caller may read
			var rows []struct {
				Name string `json:"Name"`
			}
			_ = json.Unmarshal([]byte(body), &rows)
			var shown []string
			seenRow := map[string]bool{}
			for _, row := range rows {
				// (a name shown twice is not beyond the grants: compared as a set)
				if (row.Name == "a" || row.Name == "b") && !seenRow[row.Name] {
					seenRow[row.Name] = true
					shown = append(shown, "/datasets/"+row.Name)
				}
			}
			sort.Strings(shown)
			want := append([]string{}, c.List...)
			sort.Strings(want)
			sum.Checks++
			if fmt.Sprint(shown) != fmt.Sprint(want) {
				r.Divs = append(r.Divs, Divergence{Kind: "authz-list", Adapter: "http",
					Query:    map[string]any{"method": rq.Method, "path": rq.Path, "token": c.Tok, "role": c.Role, "acl": acl},
					Expected: want, Actual: shown})
			}
		} else if got != "served" && rq.Method != "GET" && len(h.w.Dsm.GetDatasetNames()) != names {
			r.Divs = append(r.Divs, Divergence{Kind: "authz-effect", Adapter: "http",
				Query: map[string]any{"method": rq.Method, "path": rq.Path}, Expected: "a refused request has no effect", Actual: "dataset list changed"})
		}
		if got == "served" && rq.Method == "DELETE" && rq.Path == "/datasets" {
			// "delete all datasets" also removes core.Dataset: continue on a fresh hub
			h.w.Destroy()
			hubNo++
			h, err = newSecuredHub(filepath.Join(os.Getenv("VERIF_DIR"), fmt.Sprintf("az%d_%d", offset, hubNo)))
			if err != nil {
				t.Fatal(err)
			}
			tokens = map[string]string{}
			_, _ = h.w.Dsm.CreateDataset("a", nil)
			_, _ = h.w.Dsm.CreateDataset("b", nil)
		} else if got == "served" && rq.Method != "GET" && strings.HasPrefix(rq.Path, "/datasets") {
			// keep the two datasets the paths refer to alive (a served DELETE removes them)
			_, _ = h.w.Dsm.CreateDataset("a", nil)
			_, _ = h.w.Dsm.CreateDataset("b", nil)
		}
		if len(sum.Samples) < 3 && len(c.Acl) == 2 {
			sum.Samples = append(sum.Samples, map[string]any{"method": rq.Method, "path": rq.Path, "acl": acl, "decision": c.D})
		}
		if len(r.Divs) > 0 {
			sum.Diverging++
			_ = enc.Encode(r)
		}
	}
	if offset == 0 {
		// where tokens come from, through the route: POST /security/token (open) with client assertions of every shape
		// and with the admin's credentials; what is issued is then used on a route the client's ACL grants and on one it
		// does not (the reference is spec/AuthzPersist.tla's TokenByAssertion / AdminLogin + spec/Authz.tla's Decision)
		r := Result{Idx: idx + 1, Adapter: "http"}
		h.core.RegisterClient(&security.ClientInfo{ClientID: "tokclient", PublicKey: []byte(clientKeyPEM("tokclient", 1))})
		h.core.SetClientAccessControls("tokclient", []*security.AccessControl{{Resource: "/datasets*", Action: "read"}})
		_, _ = h.w.Dsm.CreateDataset("a", nil)
		post := func(form url.Values) (int, string) {
			req := httptest.NewRequest(http.MethodPost, "/security/token", strings.NewReader(form.Encode()))
			req.Header.Set("Content-Type", "application/x-www-form-urlencoded")
			rec := httptest.NewRecorder()
			h.handler.ServeHTTP(rec, req)
			var tr struct {
				AccessToken string `json:"access_token"`
			}
			_ = json.Unmarshal(rec.Body.Bytes(), &tr)
			return rec.Code, tr.AccessToken
		}
		for _, shape := range []string{"fresh", "expired", "notyet", "hs256", "none", "garbage"} {
			for _, kv := range []int{1, 2} {
				want := shape == "fresh" && kv == 1
				code, tok := post(url.Values{"grant_type": {"client_credentials"},
					"client_assertion_type": {"urn:ietf:params:oauth:grant-type:jwt-bearer"},
					"client_assertion":      {clientAssertion("tokclient", kv, shape, h.env.NodeID)}})
				sum.Checks++
				q := map[string]any{"route": "POST /security/token", "assertion": shape, "key_version": kv, "registered_key_version": 1}
				if (code == 200 && tok != "") != want {
					r.Divs = append(r.Divs, Divergence{Kind: "token-issuance", Adapter: "http", Query: q, Expected: map[string]any{"issued": want}, Actual: fmt.Sprintf("HTTP %d, token %v", code, tok != "")})
				} else if want {
					sum.Checks += 2
					if c1, b1 := h.do(http.MethodGet, "/datasets/a/entities", "Bearer "+tok); statusClass(c1, b1) != "served" {
						r.Divs = append(r.Divs, Divergence{Kind: "issued-token", Adapter: "http", Query: q, Expected: "served (the client's ACL grants read on /datasets*)", Actual: c1})
					}
					if c2, b2 := h.do(http.MethodPost, "/datasets/a/entities", "Bearer "+tok); statusClass(c2, b2) != "403" {
						r.Divs = append(r.Divs, Divergence{Kind: "issued-token", Adapter: "http", Query: q, Expected: "403 (read never suffices for a mutation)", Actual: c2})
					}
				}
			}
		}
		for _, good := range []bool{true, false} {
			secret := "secret"
			if !good {
				secret = "wrong"
			}
			code, tok := post(url.Values{"grant_type": {"client_credentials"}, "client_id": {"admin"}, "client_secret": {secret}})
			sum.Checks++
			q := map[string]any{"route": "POST /security/token", "admin_credentials": good}
			if (code == 200 && tok != "") != good {
				r.Divs = append(r.Divs, Divergence{Kind: "token-issuance", Adapter: "http", Query: q, Expected: map[string]any{"issued": good}, Actual: fmt.Sprintf("HTTP %d, token %v", code, tok != "")})
			} else if good {
				sum.Checks++
				if c1, b1 := h.do(http.MethodPost, "/datasets/a/entities", "Bearer "+tok); statusClass(c1, b1) != "served" {
					r.Divs = append(r.Divs, Divergence{Kind: "issued-token", Adapter: "http", Query: q, Expected: "served (admin)", Actual: c1})
				}
			}
		}
		if len(r.Divs) > 0 {
			sum.Diverging++
			_ = enc.Encode(r)
		}
	}
	sum.WallSeconds = time.Since(start).Seconds()
	_ = enc.Encode(sum)
}

var persistAcls = map[int][]*security.AccessControl{
	1: {{Resource: "/datasets/a", Action: "read"}},
	2: {{Resource: "/datasets/*", Action: "write"}, {Resource: "/datasets/b", Action: "read", Deny: true}},
}

// TestAuthzPersist executes client / ACL management sequences with restarts (spec/Authz.tla, PSpec)
// on the real ServiceCore and compares the registered clients and ACLs at the end.
// one RSA key per (client, key version), made on first use
var (
	clientKeyMu sync.Mutex
	clientKeys  = map[string]*rsa.PrivateKey{}
)

func clientKey(c string, kv int) *rsa.PrivateKey {
	clientKeyMu.Lock()
	defer clientKeyMu.Unlock()
	id := fmt.Sprintf("%s/%d", c, kv)
	if k, ok := clientKeys[id]; ok {
		return k
	}
	k, err := rsa.GenerateKey(rand.Reader, 2048)
	if err != nil {
		panic(err)
	}
	clientKeys[id] = k
	return k
}

func clientKeyPEM(c string, kv int) string {
	pem, _ := security.ExportRsaPublicKeyAsPem(&clientKey(c, kv).PublicKey)
	return pem
}

// clientAssertion is what a client sends to POST /security/token: a JWT with its id as subject, signed by key
// version kv of client c, in the given shape.
func clientAssertion(c string, kv int, shape, nodeID string) string {
	claims := jwt.RegisteredClaims{ExpiresAt: jwt.NewNumericDate(time.Now().Add(time.Minute)), ID: fmt.Sprintf("a-%d", time.Now().UnixNano()),
		Subject: c, Audience: jwt.ClaimStrings{"node:" + nodeID}}
	switch shape {
	case "expired":
		claims.ExpiresAt = jwt.NewNumericDate(time.Now().Add(-time.Minute))
	case "notyet":
		claims.NotBefore = jwt.NewNumericDate(time.Now().Add(10 * time.Minute))
	case "hs256":
		s, _ := jwt.NewWithClaims(jwt.SigningMethodHS256, claims).SignedString([]byte(clientKeyPEM(c, kv)))
		return s
	case "none":
		s, _ := jwt.NewWithClaims(jwt.SigningMethodNone, claims).SignedString(jwt.UnsafeAllowNoneSignatureType)
		return s
	case "garbage":
		return "not.a.jwt"
	}
	s, err := jwt.NewWithClaims(jwt.SigningMethodRS256, claims).SignedString(clientKey(c, kv))
	if err != nil {
		panic(err)
	}
	return s
}

// requestToken: a panic counts as a refusal (the route's recover middleware answers 500)
func requestToken(core *security.ServiceCore, assertion string) (tok, refusal string) {
	defer func() {
		if rc := recover(); rc != nil {
			tok, refusal = "", fmt.Sprint("panic: ", rc)
		}
	}()
	t, err := core.ValidateClientJWTMakeJWTAccessToken(assertion)
	if err != nil {
		return "", err.Error()
	}
	return t, ""
}

// checkIssued: a token is issued exactly when the reference says so, and an issued token is signed by the node, names
// the requester and its role, and expires within the next 16 minutes.
func checkIssued(core *security.ServiceCore, subject, role string, want bool, tok, refusal string) string {
	if !want {
		if tok != "" {
			return "a token was issued"
		}
		return ""
	}
	if tok == "" {
		return "refused: " + refusal
	}
	claims := &security.CustomClaims{}
	parsed, err := jwt.ParseWithClaims(tok, claims, func(*jwt.Token) (interface{}, error) { return core.GetActiveKeyPair().PublicKey, nil })
	if err != nil || !parsed.Valid {
		return fmt.Sprint("issued token does not verify with the node key: ", err)
	}
	node := "node:" + core.NodeInfo.NodeID
	if claims.Subject != subject || fmt.Sprint(claims.Roles) != fmt.Sprint([]string{role}) || claims.Issuer != node || fmt.Sprint(claims.Audience) != fmt.Sprint([]string{node}) {
		return fmt.Sprintf("issued token: subject %q roles %v issuer %q audience %v", claims.Subject, claims.Roles, claims.Issuer, claims.Audience)
	}
	if claims.ExpiresAt == nil || claims.ExpiresAt.Before(time.Now()) || claims.ExpiresAt.After(time.Now().Add(16*time.Minute)) {
		return fmt.Sprint("issued token expires at ", claims.ExpiresAt)
	}
	return ""
}

func TestAuthzPersist(t *testing.T) {
	in := os.Getenv("VERIF_TLC_OUT")
	if in == "" {
		t.Skip("VERIF_TLC_OUT not set")
	}
	start := time.Now()
	stride, offset := envInt("VERIF_STRIDE", 1), envInt("VERIF_OFFSET", 0)
	outf, err := os.Create(os.Getenv("VERIF_RESULT"))
	if err != nil {
		t.Fatal(err)
	}
	defer outf.Close()
	out := bufio.NewWriter(outf)
	defer out.Flush()
	enc := json.NewEncoder(out)
	sum := Summary{Summary: true}
	f, err := os.Open(in)
	if err != nil {
		t.Fatal(err)
	}
	defer f.Close()
	sc := bufio.NewScanner(f)
	sc.Buffer(make([]byte, 1<<20), 1<<26)
	idx := -1
	for sc.Scan() {
		payload, ok := ParseTLCLine(sc.Text(), "PCASE")
		if !ok {
			continue
		}
		idx++
		if idx%stride != offset {
			continue
		}
		var c struct {
			Steps []struct {
				A  string `json:"a"`
				C  string `json:"c"`
				K  int    `json:"k"`
				Kv int    `json:"kv"`
				Sh string `json:"sh"`
				Ok bool   `json:"ok"`
			} `json:"steps"`
			Reg  json.RawMessage `json:"reg"`
			Acls json.RawMessage `json:"acls"`
		}
		if err := json.Unmarshal(payload, &c); err != nil {
			t.Fatal(err)
		}
		expReg := map[string]int{}
		if len(c.Reg) > 0 && c.Reg[0] == '{' {
			_ = json.Unmarshal(c.Reg, &expReg)
		}
		expAcl := map[string]int{}
		if len(c.Acls) > 0 && c.Acls[0] == '{' {
			_ = json.Unmarshal(c.Acls, &expAcl)
		}
		sum.Behaviours++
		sum.Replays++
		if len(c.Steps) > 0 {
			sum.NonTrivial++
		}
		dir := filepath.Join(os.Getenv("VERIF_DIR"), fmt.Sprintf("p%d_%d", offset, idx))
		env := NewEnv(dir)
		env.SecurityStorageLocation = filepath.Join(dir, "security")
		env.NodeID = "verifnode"
		env.AdminUserName, env.AdminPassword = "admin", "secret"
		if err := writeNodeKeys(env.SecurityStorageLocation); err != nil {
			t.Fatal(err)
		}
		core := security.NewServiceCore(env)
		nodeKey := func(c *security.ServiceCore) string {
			if c.NodeInfo == nil || len(c.NodeInfo.KeyPairs) == 0 || c.NodeInfo.KeyPairs[0].PublicKey == nil {
				return "none"
			}
			return c.NodeInfo.NodeID + "/" + c.NodeInfo.KeyPairs[0].PublicKey.N.String()[:24]
		}
		firstNode := nodeKey(core)
		r := Result{Idx: idx, Adapter: "security"}
		for _, st := range c.Steps {
			switch st.A {
			case "assert":
				// a token request with a client assertion (what POST /security/token hands to the core)
				sum.Checks++
				tok, refusal := requestToken(core, clientAssertion(st.C, st.Kv, st.Sh, env.NodeID))
				if problem := checkIssued(core, st.C, "client", st.Ok, tok, refusal); problem != "" {
					r.Divs = append(r.Divs, Divergence{Kind: "token-issuance", Adapter: "security", Query: c.Steps,
						Expected: map[string]any{"client": st.C, "key": st.Kv, "assertion": st.Sh, "issued": st.Ok}, Actual: problem})
				}
			case "admin":
				sum.Checks++
				secret := "secret"
				if !st.Ok {
					secret = "wrong"
				}
				tok, err := core.MakeAdminJWT("admin", secret)
				refusal := ""
				if err != nil {
					refusal = err.Error()
				}
				if problem := checkIssued(core, "admin", "admin", st.Ok, tok, refusal); problem != "" {
					r.Divs = append(r.Divs, Divergence{Kind: "token-issuance", Adapter: "security", Query: c.Steps,
						Expected: map[string]any{"admin": true, "issued": st.Ok}, Actual: problem})
				}
			case "register":
				core.RegisterClient(&security.ClientInfo{ClientID: st.C, PublicKey: []byte(clientKeyPEM(st.C, st.Kv))})
			case "unregister":
				core.RegisterClient(&security.ClientInfo{ClientID: st.C, Deleted: true})
			case "setacl":
				core.SetClientAccessControls(st.C, persistAcls[st.K])
			case "delacl":
				core.DeleteClientAccessControls(st.C)
			case "restart":
				core = security.NewServiceCore(env)
			}
		}
		// the node keeps its identity (node id and key pair) across restarts
		sum.Checks++
		if got := nodeKey(core); got != firstNode {
			r.Divs = append(r.Divs, Divergence{Kind: "node-identity", Adapter: "security", Query: c.Steps, Expected: firstNode, Actual: got})
		}
		// registered clients with the key they registered last
		var gotReg, wantReg []string
		for k, ci := range core.GetClients() {
			gotReg = append(gotReg, k+"="+string(ci.PublicKey))
		}
		for k, kv := range expReg {
			wantReg = append(wantReg, k+"="+clientKeyPEM(k, kv))
		}
		sort.Strings(gotReg)
		sort.Strings(wantReg)
		sum.Checks += 2
		if fmt.Sprint(gotReg) != fmt.Sprint(wantReg) {
			r.Divs = append(r.Divs, Divergence{Kind: "clients", Adapter: "security", Query: c.Steps, Expected: wantReg, Actual: gotReg})
		}
		gotAcl := map[string]string{}
		for k, v := range core.GetAllAccessControls() {
			b, _ := json.Marshal(v)
			gotAcl[k] = string(b)
		}
		wantAcl := map[string]string{}
		for k, v := range expAcl {
			b, _ := json.Marshal(persistAcls[v])
			wantAcl[k] = string(b)
		}
		if fmt.Sprint(gotAcl) != fmt.Sprint(wantAcl) {
			r.Divs = append(r.Divs, Divergence{Kind: "acls", Adapter: "security", Query: c.Steps, Expected: wantAcl, Actual: gotAcl})
		}
		_ = os.RemoveAll(dir)
		if len(sum.Samples) < 2 && len(c.Steps) > 3 {
			sum.Samples = append(sum.Samples, c.Steps)
		}
		if len(r.Divs) > 0 {
			sum.Diverging++
			_ = enc.Encode(r)
		}
	}
	sum.WallSeconds = time.Since(start).Seconds()
	_ = enc.Encode(sum)
}
