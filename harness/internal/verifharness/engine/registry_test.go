package engine

import (
	"bufio"
	"encoding/json"
	"fmt"
	"os"
	"path/filepath"
	"sort"
	"testing"
	"time"

	"github.com/DataDog/datadog-go/v5/statsd"

	"github.com/mimiro-io/datahub/internal/content"
	"github.com/mimiro-io/datahub/internal/jobs"
	"github.com/mimiro-io/datahub/internal/security"
	"github.com/mimiro-io/datahub/internal/server"
)

type regStep struct {
	A    string `json:"a"`
	ID   string `json:"id"`
	V    int    `json:"v"`
	Kind string `json:"kind"`
}

type regJob struct {
	Present bool `json:"present"`
	V       int  `json:"v"`
	Paused  bool `json:"paused"`
	Ran     bool `json:"ran"`
}

type regBehaviour struct {
	Steps []regStep         `json:"steps"`
	Jobs  map[string]regJob `json:"jobs"`
	Provs map[string]int    `json:"provs"`
	Conts map[string]int    `json:"conts"`
	Dss   map[string]string `json:"dss"`
}

type regHub struct {
	w  *World
	pm *security.ProviderManager
	cs *content.Service
}

func (h *regHub) services() {
	h.pm = security.NewProviderManager(h.w.Env, h.w.Store, h.w.Env.Logger)
	h.cs = content.NewContentService(h.w.Env, h.w.Store, &statsd.NoOpClient{})
	h.w.Sched() // a started scheduler: loads the stored job definitions and registers them with cron
}

func regJobConfig(id string, v int) *jobs.JobConfiguration {
	c := regJobConfigBase(id, v)
	if v >= 2 { // replacements carry error handlers
		c.Triggers[0].ErrorHandlers = jobs.ErrorHandlers{&jobs.ErrorHandler{Type: "rerun", MaxRetries: 2, RetryDelay: 5},
			&jobs.ErrorHandler{Type: "log", MaxItems: 3}}
	}
	return c
}

func regJobConfigBase(id string, v int) *jobs.JobConfiguration {
	return &jobs.JobConfiguration{ID: id, Title: fmt.Sprintf("%s-title-v%d", id, v), BatchSize: 1,
		Source:   map[string]interface{}{"Type": "DatasetSource", "Name": "regsrc"},
		Sink:     map[string]interface{}{"Type": "DatasetSink", "Name": "regsnk"},
		Triggers: []jobs.JobTrigger{{TriggerType: jobs.TriggerTypeCron, JobType: jobs.JobTypeIncremental, Schedule: "0 0 1 1 *"}}}
}

func regDsConfig(kind string) *server.CreateDatasetConfig {
	switch kind {
	case "proxy":
		return &server.CreateDatasetConfig{ProxyDatasetConfig: &server.ProxyDatasetConfig{RemoteURL: "http://127.0.0.1:1/datasets/x", AuthProviderName: "prov1"}}
	case "virtual":
		return &server.CreateDatasetConfig{VirtualDatasetConfig: &server.VirtualDatasetConfig{Transform: "ZnVuY3Rpb24gYnVpbGRfZW50aXRpZXMoKSB7fQ=="}}
	case "publicns":
		return &server.CreateDatasetConfig{PublicNamespaces: []string{"http://data.mimiro.io/core/", EntNS}}
	}
	return nil
}

// projection renders everything the hub remembers outside entity data, as sorted JSON strings.
func (h *regHub) projection() map[string][]string {
	out := map[string][]string{}
	js := func(v any) string { b, _ := json.Marshal(v); return string(b) }
	for _, j := range h.w.Sched().ListJobs() {
		out["jobs"] = append(out["jobs"], js(j))
		st, _ := h.w.Sched().GetJobState(j.ID)
		out["jobstate"] = append(out["jobstate"], j.ID+"="+js(st))
	}
	out["history"] = h.w.Sched().VerifHistoryJSON()
	out["scheduled"] = h.w.Sched().VerifScheduledJobIDs()
	if ps, err := h.pm.ListProviders(); err == nil {
		for _, p := range ps {
			out["providers"] = append(out["providers"], js(p))
		}
	}
	if cs, err := h.cs.ListContents(); err == nil {
		for _, c := range cs {
			out["contents"] = append(out["contents"], js(c))
		}
	}
	for _, n := range h.w.Dsm.GetDatasetNames() {
		ds := h.w.Dsm.GetDataset(n.Name)
		if ds == nil {
			continue
		}
		out["datasets"] = append(out["datasets"], js(map[string]any{"name": n.Name, "id": ds.InternalID, "subject": ds.SubjectIdentifier,
			"proxy": ds.ProxyConfig, "virtual": ds.VirtualDatasetConfig, "publicns": ds.PublicNamespaces}))
		if e, _, err := h.w.Dsm.GetDatasetDetails(n.Name); err == nil && e != nil {
			c := Canon(e)
			out["catalogue"] = append(out["catalogue"], js(c))
		}
	}
	for p, e := range h.w.Store.NamespaceManager.GetPrefixToExpansionMap() {
		out["namespaces"] = append(out["namespaces"], p+"="+e)
	}
	for k := range out {
		sort.Strings(out[k])
	}
	return out
}

// TestRegistry executes the operation sequences TLC enumerated from spec/Registry.tla on a real hub.
func TestRegistry(t *testing.T) {
	in := os.Getenv("VERIF_TLC_OUT")
	if in == "" {
		t.Skip("VERIF_TLC_OUT not set")
	}
	start := time.Now()
	stride, offset := envInt("VERIF_STRIDE", 1), envInt("VERIF_OFFSET", 0)
	dir := os.Getenv("VERIF_DIR")
	outf, err := os.Create(os.Getenv("VERIF_RESULT"))
	if err != nil {
		t.Fatal(err)
	}
	defer outf.Close()
	out := bufio.NewWriter(outf)
	defer out.Flush()
	enc := json.NewEncoder(out)
	sum := Summary{Summary: true}
	f, err := os.Open(in)
	if err != nil {
		t.Fatal(err)
	}
	defer f.Close()
	sc := bufio.NewScanner(f)
	sc.Buffer(make([]byte, 1<<20), 1<<26)
	idx := -1
	for sc.Scan() {
		payload, ok := ParseTLCLine(sc.Text(), "RTRACE")
		if !ok {
			continue
		}
		idx++
		if idx%stride != offset {
			continue
		}
		b := &regBehaviour{}
		if err := json.Unmarshal(payload, b); err != nil {
			t.Fatal(err)
		}
		sum.Behaviours++
		sum.Replays++
		if len(b.Steps) > 0 {
			sum.NonTrivial++
		}
		_ = os.WriteFile(os.Getenv("VERIF_RESULT")+".cur", []byte(fmt.Sprintf("%d registry\n%s", idx, payload)), 0o644)
		w, err := OpenWorld(filepath.Join(dir, fmt.Sprintf("reg%d_%d", offset, idx)))
		if err != nil {
			t.Fatal(err)
		}
		h := &regHub{w: w}
		h.services()
		r := Result{Idx: idx, Adapter: "registry"}
		div := func(kind string, q, exp, act any) {
			r.Divs = append(r.Divs, Divergence{Kind: kind, Adapter: "registry", Query: q, Expected: exp, Actual: act})
		}
		src, _ := w.Dsm.CreateDataset("regsrc", nil)
		_, _ = w.Dsm.CreateDataset("regsnk", nil)
		_ = src.StoreEntities([]*server.Entity{server.NewEntity(w.EntP+":r1", 0), server.NewEntity(w.EntP+":r2", 0)})
		for si, st := range b.Steps {
			var err error
			switch st.A {
			case "jobadd":
				err = w.Sched().AddJob(regJobConfig(st.ID, st.V))
			case "jobdel":
				err = w.Sched().DeleteJob(st.ID)
			case "jobpause":
				err = w.Sched().PauseJob(st.ID)
			case "jobunpause":
				err = w.Sched().UnpauseJob(st.ID)
			case "jobrun":
				var cfg *jobs.JobConfiguration
				if cfg, err = w.Sched().LoadJob(st.ID); err == nil {
					var run *jobs.VerifRun
					run, err = w.Sched().VerifRunSync(cfg, jobs.JobTypeIncremental, jobs.VerifFault{})
					if err == nil && run.Panic != "" {
						err = fmt.Errorf("run panicked: %s", run.Panic)
					}
				}
			case "jobreset":
				err = w.Sched().ResetJob(st.ID, "1")
			case "provput":
				err = h.pm.AddProvider(security.ProviderConfig{Name: st.ID, Type: "basic",
					User: &security.ValueReader{Type: "text", Value: fmt.Sprintf("user-v%d", st.V)}, Password: &security.ValueReader{Type: "text", Value: "pw"}})
			case "provdel":
				err = h.pm.DeleteProvider(st.ID)
			case "contput":
				err = h.cs.AddContent(st.ID, &content.Content{ID: st.ID, Data: map[string]interface{}{"v": float64(st.V)}})
			case "contdel":
				err = h.cs.DeleteContent(st.ID)
			case "dscreate":
				_, err = w.Dsm.CreateDataset(st.ID, regDsConfig(st.Kind))
			case "dsdelete":
				err = w.Dsm.DeleteDataset(st.ID)
			case "restart":
				before := h.projection()
				if rerr := w.Restart(); rerr != nil {
					t.Fatal(rerr)
				}
				h.services()
				after := h.projection()
				keys := map[string]bool{}
				for k := range before {
					keys[k] = true
				}
				for k := range after {
					keys[k] = true
				}
				for k := range keys {
					sum.Checks++
					if fmt.Sprint(before[k]) != fmt.Sprint(after[k]) {
						div("restart:"+k, map[string]any{"steps": b.Steps[:si+1]}, before[k], after[k])
					}
				}
			}
			if err != nil {
				div("operation-failed", map[string]any{"step": st, "at": si}, "accepted", err.Error())
			}
		}
		// what the reference determines
		have := map[string]*jobs.JobConfiguration{}
		for _, j := range w.Sched().ListJobs() {
			have[j.ID] = j
		}
		scheduled := map[string]bool{}
		for _, id := range w.Sched().VerifScheduledJobIDs() {
			scheduled[id] = true
		}
		for id, j := range b.Jobs {
			sum.Checks += 3
			c, ok := have[id]
			if ok != j.Present {
				div("job-present", id, j.Present, ok)
				continue
			}
			if !ok {
				if scheduled[id] {
					div("job-scheduled", id, "a deleted job is not scheduled", "scheduled")
				}
				continue
			}
			if want := fmt.Sprintf("%s-title-v%d", id, j.V); c.Title != want {
				div("job-definition", id, want, c.Title)
			}
			if c.Paused != j.Paused {
				div("job-paused", id, j.Paused, c.Paused)
			}
			if scheduled[id] == j.Paused {
				div("job-scheduled", id, map[string]any{"scheduled": !j.Paused}, map[string]any{"scheduled": scheduled[id]})
			}
			st, _ := w.Sched().GetJobState(id)
			if j.Ran && (st == nil || st.ContinuationToken == "") {
				div("job-token", id, "a continuation token after a run", st)
			}
		}
		for id, v := range b.Provs {
			sum.Checks++
			p, err := h.pm.FindByName(id)
			got := 0
			if err == nil && p != nil && p.Name == id && p.User != nil {
				fmt.Sscanf(p.User.Value, "user-v%d", &got)
			}
			if got != v {
				div("provider", id, v, got)
			}
		}
		for id, v := range b.Conts {
			sum.Checks++
			c, err := h.cs.GetContentByID(id)
			got := 0
			if err == nil && c != nil && c.Data != nil {
				if f, ok := c.Data["v"].(float64); ok {
					got = int(f)
				}
			}
			if got != v {
				div("content", id, v, got)
			}
		}
		for id, kind := range b.Dss {
			sum.Checks++
			ds := w.Dsm.GetDataset(id)
			got := ""
			if ds != nil {
				switch {
				case ds.ProxyConfig != nil && ds.ProxyConfig.RemoteURL != "":
					got = "proxy"
				case ds.VirtualDatasetConfig != nil && ds.VirtualDatasetConfig.Transform != "":
					got = "virtual"
				case len(ds.PublicNamespaces) > 0:
					got = "publicns"
				default:
					got = "plain"
				}
			}
			if got != kind {
				div("dataset-settings", id, kind, got)
			}
		}
		w.Destroy()
		if len(sum.Samples) < 3 && len(b.Steps) > 3 {
			sum.Samples = append(sum.Samples, b.Steps)
		}
		if len(r.Divs) > 0 {
			sum.Diverging++
			r.Steps = nil
			_ = enc.Encode(r)
		}
	}
	sum.WallSeconds = time.Since(start).Seconds()
	_ = enc.Encode(sum)
}
