package engine

import (
	"bufio"
	"encoding/json"
	"fmt"
	"os"
	"os/exec"
	"path/filepath"
	"strings"
	"testing"
	"time"

	"github.com/mimiro-io/datahub/internal/server"
	"github.com/mimiro-io/datahub/internal/verifhook"
)

// The specification's StoreBatch is atomic whatever the size of the batch.  TestCrashWide instantiates that for
// batches far above every internal page size (the HTTP handler cuts at 10, job pages default to 10 000): a child
// stores an acknowledged small batch A, then ONE batch B of VERIF_WIDE_N entities, and dies at the Hit-th time the
// write reaches Point.  The parent reopens the store: A is there, B is there completely or not at all, listing,
// change log and lookups agree, and a further write lands behind everything.
const wideA = 3

func wideID(w *World, kind string, i int) string { return fmt.Sprintf("%s:%s%05d", w.EntP, kind, i) }

func TestCrashWideChild(t *testing.T) {
	dir := os.Getenv("VERIF_WIDE_DIR")
	if dir == "" {
		t.Skip("not a crash child")
	}
	n := envInt("VERIF_WIDE_N", 1500)
	point, hit := os.Getenv("VERIF_WIDE_POINT"), envInt("VERIF_WIDE_HIT", 1)
	w, err := OpenWorld(dir)
	if err != nil {
		t.Fatal(err)
	}
	ds, err := w.Dsm.CreateDataset("wide", nil)
	if err != nil {
		t.Fatal(err)
	}
	var a, b []*server.Entity
	for i := 0; i < wideA; i++ {
		e := server.NewEntity(wideID(w, "a", i), 0)
		e.Properties[w.PropP+":k"] = i
		a = append(a, e)
	}
	for i := 0; i < n; i++ {
		e := server.NewEntity(wideID(w, "b", i), 0)
		e.Properties[w.PropP+":k"] = i
		e.References[w.PredP+":p"] = wideID(w, "a", i%wideA)
		b = append(b, e)
	}
	if err := ds.StoreEntities(a); err != nil {
		t.Fatal(err)
	}
	hits := 0
	verifhook.SetHandler(func(id, arg string) {
		if id == point {
			hits++
			if hits == hit {
				os.Exit(137)
			}
		}
	})
	if err := ds.StoreEntities(b); err != nil {
		fmt.Println("WIDE-ERR", err)
		os.Exit(3)
	}
	_ = os.WriteFile(filepath.Join(filepath.Dir(dir), filepath.Base(dir)+".acked"), []byte("acked"), 0o644)
	os.Exit(0) // no Close: a kill right after the acknowledgement
}

func TestCrashWide(t *testing.T) {
	if os.Getenv("VERIF_TLC_OUT") == "" {
		t.Skip("VERIF_TLC_OUT not set")
	}
	start := time.Now()
	stride, offset := envInt("VERIF_STRIDE", 1), envInt("VERIF_OFFSET", 0)
	maxHits := envInt("VERIF_HITS", 3)
	n := envInt("VERIF_WIDE_N", 1500)
	base := os.Getenv("VERIF_DIR")
	outf, err := os.Create(os.Getenv("VERIF_RESULT"))
	if err != nil {
		t.Fatal(err)
	}
	defer outf.Close()
	out := bufio.NewWriter(outf)
	defer out.Flush()
	enc := json.NewEncoder(out)
	sum := Summary{Summary: true}
	idx := -1
	for _, point := range append(append([]string{}, crashPoints["store"]...), "none") {
		for hit := 1; hit <= maxHits; hit++ {
			if point == "none" && hit > 1 {
				continue
			}
			idx++
			if idx%stride != offset {
				continue
			}
			sum.Behaviours++
			sum.Replays++
			dir := filepath.Join(base, fmt.Sprintf("wide%d_%d", offset, idx))
			_ = os.RemoveAll(dir)
			cmd := exec.Command(os.Args[0], "-test.run", "^TestCrashWideChild$", "-test.timeout", "300s")
			cmd.Env = append(os.Environ(), "VERIF_WIDE_DIR="+dir, "VERIF_WIDE_POINT="+point, fmt.Sprintf("VERIF_WIDE_HIT=%d", hit), "VERIF_TLC_OUT=")
			cout, _ := cmd.CombinedOutput()
			code := cmd.ProcessState.ExitCode()
			_, ackErr := os.Stat(dir + ".acked")
			acked := ackErr == nil
			r := Result{Idx: idx, Adapter: fmt.Sprintf("crash@%s#%d", point, hit)}
			q := map[string]any{"batch_a": wideA, "batch_b": n, "point": point, "hit": hit, "child_exit": code, "acknowledged": acked}
			div := func(kind string, exp, act any) {
				r.Divs = append(r.Divs, Divergence{Kind: kind, Adapter: r.Adapter, Query: q, Expected: exp, Actual: act})
			}
			if code != 0 && code != 137 {
				tail := string(cout)
				if len(tail) > 800 {
					tail = tail[len(tail)-800:]
				}
				r.Err = fmt.Sprintf("crash child exited %d: %s", code, tail)
				sum.Errors++
				_ = enc.Encode(r)
				continue
			}
			if code == 137 {
				sum.NonTrivial++
			}
			w, err := OpenWorld(dir)
			if err != nil {
				div("recover", "the store opens after the kill", err.Error())
				sum.Diverging++
				_ = enc.Encode(r)
				continue
			}
			ds := w.Dsm.GetDataset("wide")
			if ds == nil {
				div("recover", "the dataset created before the batches exists", "missing")
			} else {
				res, _ := ds.GetEntities("", 0)
				chg, _ := ds.GetChanges(0, 0, false)
				count := func(es []*server.Entity, kind string) int {
					c := 0
					for _, e := range es {
						if strings.HasPrefix(e.ID, w.EntP+":"+kind) {
							c++
						}
					}
					return c
				}
				la, lb, ca, cb := count(res.Entities, "a"), count(res.Entities, "b"), count(chg.Entities, "a"), count(chg.Entities, "b")
				sum.Checks += 4
				got := map[string]int{"listing_a": la, "listing_b": lb, "changes_a": ca, "changes_b": cb}
				if la != wideA || ca != wideA {
					div("wide-batch", "the acknowledged batch A is complete", got)
				}
				if lb != cb || (lb != 0 && lb != n) {
					div("wide-batch", fmt.Sprintf("batch B is there completely (%d) or not at all, in the listing and in the change log alike", n), got)
				} else if acked && lb != n {
					div("wide-batch", "an acknowledged batch B is complete", got)
				}
				// lookups agree with the listing (first, last and one from the middle)
				for _, i := range []int{0, n / 2, n - 1} {
					e, _ := w.Store.GetEntity(wideID(w, "b", i), []string{"wide"}, true)
					has := e != nil && e.Recorded > 0
					sum.Checks++
					if has != (lb == n) {
						div("wide-batch", map[string]any{"lookup": wideID(w, "b", i), "present": lb == n}, has)
						break
					}
				}
				// a further write lands behind everything
				e := server.NewEntity(wideID(w, "c", 0), 0)
				if err := ds.StoreEntities([]*server.Entity{e}); err != nil {
					div("follow-up-write", "the recovered hub accepts writes", err.Error())
				} else if chg2, _ := ds.GetChanges(0, 0, false); len(chg2.Entities) != len(chg.Entities)+1 || chg2.Entities[len(chg2.Entities)-1].ID != e.ID || chg2.NextToken <= chg.NextToken {
					div("follow-up-write", "feed grows by one entry at its end, token increases", map[string]any{"before": len(chg.Entities), "after": len(chg2.Entities)})
				}
			}
			w.Destroy()
			_ = os.Remove(dir + ".acked")
			if len(sum.Samples) < 2 {
				sum.Samples = append(sum.Samples, q)
			}
			if len(r.Divs) > 0 {
				sum.Diverging++
				_ = enc.Encode(r)
			}
		}
	}
	sum.WallSeconds = time.Since(start).Seconds()
	_ = enc.Encode(sum)
}
