package engine

import (
	"encoding/json"
	"fmt"
	"sort"
	"strconv"
	"strings"

	"github.com/mimiro-io/datahub/internal/jobs"
)

func (s *Session) msConfig() *jobs.JobConfiguration {
	ms := s.H.Ms
	var deps []interface{}
	for _, d := range ms.Deps {
		var joins []interface{}
		for _, j := range d.Joins {
			joins = append(joins, map[string]interface{}{"dataset": s.DsReal(j.Ds), "predicate": s.PredURI(j.Pred), "inverse": j.Inv})
		}
		deps = append(deps, map[string]interface{}{"dataset": s.DsReal(d.Ds), "joins": joins})
	}
	id := "ms-" + s.Tag
	return &jobs.JobConfiguration{ID: id, Title: id, BatchSize: 1000,
		Source:   map[string]interface{}{"Type": "MultiSource", "Name": s.DsReal(ms.Main), "Dependencies": deps},
		Sink:     map[string]interface{}{"Type": "DevNullSink"},
		Triggers: []jobs.JobTrigger{{TriggerType: jobs.TriggerTypeCron, JobType: jobs.JobTypeIncremental, Schedule: "0 0 1 1 *"}}}
}

// catchUp runs the MultiSource job until its continuation token stops moving and compares the
// union of what the runs emitted, and the final tokens, with the specification.
func (s *Session) catchUp(st *Step) error {
	cfg := s.msConfig()
	sched := s.W.Sched()
	emitted := map[string]bool{}
	prev, token := "\x00", ""
	q := map[string]any{"step": "catchup", "first": st.First}
	for i := 0; i < 12 && token != prev; i++ {
		prev = token
		run, err := sched.VerifRunSync(cfg, jobs.JobTypeIncremental, jobs.VerifFault{})
		if err != nil {
			return err
		}
		if run.Panic != "" {
			s.Checks++
			s.diverge("job-panic", q, "run ends as success, failure or kill", "panic: "+run.Panic, "")
			s.NonTriv = true
			return nil
		}
		if run.LastError != "" {
			s.Checks++
			s.diverge("job-result", q, "ok", run.LastError, "")
			return nil
		}
		for _, call := range run.Calls {
			for _, e := range call {
				emitted[s.entAbstract(e.ID)] = true
			}
		}
		token = run.Token
	}
	s.NonTriv = true
	var missing, foreign []string
	for _, r := range st.Required {
		if !emitted[r] {
			missing = append(missing, r)
		}
	}
	for e := range emitted {
		if !contains(st.AllowedE, e) {
			foreign = append(foreign, e)
		}
	}
	var em []string
	for e := range emitted {
		em = append(em, e)
	}
	sort.Strings(em)
	s.Checks += 2
	if len(missing) > 0 {
		s.diverge("multisource-missing", q, map[string]any{"required": st.Required}, map[string]any{"emitted": em, "missing": missing}, "")
	}
	if len(foreign) > 0 {
		s.diverge("multisource-foreign", q, map[string]any{"only-from-main": st.AllowedE}, foreign, "")
	}
	// tokens stand at the end of the feeds
	var tk struct {
		MainToken        string
		DependencyTokens map[string]struct{ Token string }
	}
	_ = json.Unmarshal([]byte(token), &tk)
	mt, _ := strconv.ParseUint(tk.MainToken, 10, 64)
	expDep := map[string]uint64{}
	if len(st.DepTok) > 0 && st.DepTok[0] == '{' {
		_ = json.Unmarshal(st.DepTok, &expDep)
	}
	s.Checks++
	bad := mt != st.MainTok
	gotDep := map[string]uint64{}
	for n, exp := range expDep {
		v, _ := strconv.ParseUint(tk.DependencyTokens[s.DsReal(n)].Token, 10, 64)
		gotDep[n] = v
		if v != exp {
			bad = true
		}
	}
	if bad {
		s.diverge("multisource-token", q, map[string]any{"main": st.MainTok, "deps": expDep}, map[string]any{"main": mt, "deps": gotDep, "raw": strings.TrimSpace(token)}, "")
	}
	_ = fmt.Sprint
	return nil
}
