package engine

import (
	"context"
	"encoding/base64"
	"encoding/json"
	"fmt"
	"os"
	"sort"
	"strconv"
	"strings"

	"github.com/mimiro-io/datahub/internal/jobs"
	"github.com/mimiro-io/datahub/internal/jobs/source"
	"github.com/mimiro-io/datahub/internal/server"
)

func (s *Session) msConfig() *jobs.JobConfiguration {
	ms := s.H.Ms
	var deps []interface{}
	for _, d := range ms.Deps {
		var joins []interface{}
		for _, j := range d.Joins {
			joins = append(joins, map[string]interface{}{"dataset": s.DsReal(j.Ds), "predicate": s.PredURI(j.Pred), "inverse": j.Inv})
		}
		deps = append(deps, map[string]interface{}{"dataset": s.DsReal(d.Ds), "joins": joins})
	}
	id := "ms-" + s.Tag
	// batch sizes: above every feed length, and 1 and 2 (dependency changes and the entities they reach are paged)
	batch := []int{1000, 1, 2, 1000, 2, 1}[(s.Variant/2)%6]
	if v := os.Getenv("VERIF_MS_BATCH"); v != "" {
		batch, _ = strconv.Atoi(v)
	}
	cfg := &jobs.JobConfiguration{ID: id, Title: id, BatchSize: batch,
		Source:   map[string]interface{}{"Type": "MultiSource", "Name": s.DsReal(ms.Main), "Dependencies": deps},
		Sink:     map[string]interface{}{"Type": "DevNullSink"},
		Triggers: []jobs.JobTrigger{{TriggerType: jobs.TriggerTypeCron, JobType: jobs.JobTypeIncremental, Schedule: "0 0 1 1 *"}}}
	if js, ok := s.msTrackQueries(); ok && s.Variant%2 == 1 && os.Getenv("VERIF_TRACK_QUERIES") != "0" {
		// every second behaviour declares the same dependencies the other way: as the queries a transform would ask
		// starting from a main entity (track_queries), from which the hub derives the dependencies itself
		cfg.Source = map[string]interface{}{"Type": "MultiSource", "Name": s.DsReal(ms.Main)}
		cfg.Transform = map[string]interface{}{"Type": "JavascriptTransform", "Code": base64.StdEncoding.EncodeToString([]byte(js))}
	}
	return cfg
}

// msTrackQueries renders the declared dependencies as a track_queries function: a dependency (d, [J1..Jk]) whose last
// join lands in the main dataset is the query path main -> ... -> d read backwards, every hop in the other direction.
func (s *Session) msTrackQueries() (string, bool) {
	ms := s.H.Ms
	var b strings.Builder
	b.WriteString("function track_queries(start) {\n")
	for _, d := range ms.Deps {
		k := len(d.Joins)
		if k == 0 || d.Joins[k-1].Ds != ms.Main {
			return "", false
		}
		b.WriteString("  start")
		for i := 1; i <= k; i++ {
			j := d.Joins[k-i]
			target := d.Ds
			if i < k {
				target = d.Joins[k-i-1].Ds
			}
			fn := "iHop" // the declared join is forward, the query from main goes against it
			if j.Inv {
				fn = "hop"
			}
			fmt.Fprintf(&b, ".%s(%q, %q)", fn, s.DsReal(target), s.PredURI(j.Pred))
		}
		b.WriteString(";\n")
	}
	b.WriteString("}\nfunction transform_entities(entities) { return entities; }\n")
	return b.String(), true
}

// catchUp runs the MultiSource job until its continuation token stops moving and compares the
// union of what the runs emitted, and the final tokens, with the specification.
func (s *Session) catchUp(st *Step) error {
	cfg := s.msConfig()
	sched := s.W.Sched()
	emitted := map[string]bool{}
	lastEmitted := map[string]CEntity{}
	prev, token := "\x00", ""
	q := map[string]any{"step": "catchup", "first": st.First}
	for i := 0; i < 12 && token != prev; i++ {
		prev = token
		run, err := sched.VerifRunSync(cfg, jobs.JobTypeIncremental, jobs.VerifFault{})
		if err != nil {
			return err
		}
		if run.Panic != "" {
			s.Checks++
			s.diverge("job-panic", q, "run ends as success, failure or kill", "panic: "+run.Panic, "")
			s.NonTriv = true
			return nil
		}
		if run.LastError != "" {
			s.Checks++
			s.diverge("job-result", q, "ok", run.LastError, "")
			return nil
		}
		for _, call := range run.Calls {
			for _, e := range call {
				emitted[s.entAbstract(e.ID)] = true
				lastEmitted[s.entAbstract(e.ID)] = Canon(e)
			}
		}
		token = run.Token
	}
	s.NonTriv = true
	// "emitted entities always come from the main dataset": what was emitted last for an id is that id's entity as
	// the main dataset alone holds it now (nothing is written during a catch-up), not a merge with other datasets
	for a, ce := range lastEmitted {
		if !contains(st.AllowedE, a) {
			continue // reported as foreign below
		}
		cur, err := s.W.Store.GetEntity(ce.ID, []string{s.DsReal(s.H.Ms.Main)}, true)
		if err != nil || cur == nil {
			continue
		}
		s.Checks++
		if want := Canon(cur); want.Key() != ce.Key() {
			s.diverge("multisource-content", q, want, ce, "emitted entity vs the main dataset's own version")
		}
	}
	var missing, foreign []string
	for _, r := range st.Required {
		if !emitted[r] {
			missing = append(missing, r)
		}
	}
	for e := range emitted {
		if !contains(st.AllowedE, e) {
			foreign = append(foreign, e)
		}
	}
	var em []string
	for e := range emitted {
		em = append(em, e)
	}
	sort.Strings(em)
	s.Checks += 2
	if len(missing) > 0 {
		s.diverge("multisource-missing", q, map[string]any{"required": st.Required}, map[string]any{"emitted": em, "missing": missing}, "")
	}
	if len(foreign) > 0 {
		s.diverge("multisource-foreign", q, map[string]any{"only-from-main": st.AllowedE}, foreign, "")
	}
	s.compareMsToken(q, token, st)
	_ = fmt.Sprint
	return nil
}

// msFullSyncStep drives the first (full) run of the MultiSource job page by page, the way a fullsync
// pipeline does (StartFullSync, ReadEntities with the stored token and a batch size of 1, EndFullSync when a
// page comes back empty, token stored as the job's state), so that other steps can happen between its pages.
func (s *Session) msFullSyncStep(st *Step) error {
	cfg := s.msConfig()
	sched := s.W.Sched()
	q := map[string]any{"step": st.A}
	switch st.A {
	case "fsstart":
		src, err := sched.VerifSource(cfg)
		if err != nil {
			return err
		}
		s.msSrc, s.msTok = src, ""
		src.StartFullSync()
		s.NonTriv = true
		return nil
	}
	if s.msSrc == nil {
		return fmt.Errorf("%s without a running full sync", st.A)
	}
	tok, err := source.DecodeToken("MultiSource", s.msTok)
	if err != nil {
		return err
	}
	var got []*server.Entity
	next := s.msTok
	err = s.msSrc.ReadEntities(context.Background(), tok, 1, func(ents []*server.Entity, c source.DatasetContinuation) error {
		got = append(got, ents...)
		enc, eerr := c.Encode()
		if eerr != nil {
			return eerr
		}
		next = enc
		return nil
	})
	s.Checks++
	if err != nil {
		s.diverge("multisource-page", q, "the page is read", err.Error(), "")
		return nil
	}
	s.msTok = next
	emitted := map[string]bool{}
	var em []string
	for _, e := range got {
		if !emitted[s.entAbstract(e.ID)] {
			em = append(em, s.entAbstract(e.ID))
		}
		emitted[s.entAbstract(e.ID)] = true
	}
	sort.Strings(em)
	if st.A == "fspage" {
		for _, r := range st.Required {
			if !emitted[r] {
				s.diverge("multisource-missing", q, map[string]any{"required": st.Required}, map[string]any{"emitted": em}, "page of the first full run")
			}
		}
		for _, e := range em {
			if !contains(st.AllowedE, e) {
				s.diverge("multisource-foreign", q, map[string]any{"only-from-main": st.AllowedE}, em, "")
			}
		}
		return nil
	}
	// fsend: the page must be empty; the run ends and its token is stored
	if len(em) > 0 {
		s.diverge("multisource-page", q, "an empty page (everything was read)", em, "")
	}
	s.msSrc.EndFullSync()
	s.msSrc = nil
	if err := sched.VerifSetJobToken(cfg.ID, s.msTok); err != nil {
		return err
	}
	s.compareMsToken(q, s.msTok, st)
	return nil
}

// compareMsToken compares an encoded MultiSource token with the positions the specification requires.
func (s *Session) compareMsToken(q map[string]any, token string, st *Step) {
	var tk struct {
		MainToken        string
		DependencyTokens map[string]struct{ Token string }
	}
	_ = json.Unmarshal([]byte(token), &tk)
	mt, _ := strconv.ParseUint(tk.MainToken, 10, 64)
	expDep := map[string]uint64{}
	if len(st.DepTok) > 0 && st.DepTok[0] == '{' {
		_ = json.Unmarshal(st.DepTok, &expDep)
	}
	s.Checks++
	bad := mt != st.MainTok
	gotDep := map[string]uint64{}
	for n, exp := range expDep {
		v, _ := strconv.ParseUint(tk.DependencyTokens[s.DsReal(n)].Token, 10, 64)
		gotDep[n] = v
		if v != exp {
			bad = true
		}
	}
	if bad {
		s.diverge("multisource-token", q, map[string]any{"main": st.MainTok, "deps": expDep}, map[string]any{"main": mt, "deps": gotDep, "raw": strings.TrimSpace(token)}, "")
	}
}
