package engine

import (
	"crypto/sha1"
	"encoding/hex"
	"fmt"
	"os"
	"path/filepath"
	"sync"

	"github.com/bamzi/jobrunner"
	"github.com/dgraph-io/badger/v4"

	"github.com/mimiro-io/datahub/internal/server"
)

var cronOnce sync.Once

// BackupDir is the backup location of this session (one location per behaviour, so that many
// behaviours can share one store).
func (s *Session) BackupDir() string { return s.W.Dir + "_backup_" + s.Tag }

func newBackupManager(w *World, location string) (*server.BackupManager, error) {
	cronOnce.Do(func() { jobrunner.Start() }) // NewBackupManager registers itself with the global cron
	env := *w.Env
	env.BackupLocation = location
	env.BackupSchedule = "0 0 1 1 *" // never fires during a check; runs are triggered by the behaviour
	env.BackupRsync = false
	bm, err := server.NewBackupManager(w.Store, &env)
	// the global cron would keep every manager (and with it every store ever opened) alive
	for _, e := range jobrunner.MainCron.Entries() {
		jobrunner.MainCron.Remove(e.ID)
	}
	return bm, err
}

func runBackup(bm *server.BackupManager) (err error) {
	defer func() {
		if r := recover(); r != nil {
			err = fmt.Errorf("backup run panicked: %v", r)
		}
	}()
	bm.Run()
	return nil
}

// backup performs one backup run of the hub (native mode) into the world's backup location.
func (s *Session) backup() error {
	if s.bm == nil || s.bmWorldGen != s.W.Gen {
		// first run, or the hub was restarted since: a new manager that reloads its cursor
		bm, err := newBackupManager(s.W, s.BackupDir())
		if err != nil {
			return err
		}
		s.bm, s.bmWorldGen = bm, s.W.Gen
	}
	return runBackup(s.bm)
}

func dirDigest(dir string) string {
	h := sha1.New()
	entries, _ := os.ReadDir(dir)
	for _, e := range entries {
		b, _ := os.ReadFile(filepath.Join(dir, e.Name()))
		fmt.Fprintf(h, "%s:%d:", e.Name(), len(b))
		h.Write(b)
	}
	return hex.EncodeToString(h.Sum(nil))
}

// foreignBackup lets a different store attempt a backup run into this hub's backup location;
// the run must be refused and the location must stay byte-identical.
func (s *Session) foreignBackup() error {
	before := dirDigest(s.BackupDir())
	w2, err := OpenWorld(s.W.Dir + "_foreign_" + s.Tag)
	if err != nil {
		return err
	}
	defer w2.Destroy()
	ds, err := w2.Dsm.CreateDataset("intruder", nil)
	if err != nil {
		return err
	}
	if err := ds.StoreEntities([]*server.Entity{server.NewEntity(w2.EntP+":intruder", 0)}); err != nil {
		return err
	}
	bm, err := newBackupManager(w2, s.BackupDir())
	if err != nil {
		return err
	}
	refusal := runBackup(bm)
	after := dirDigest(s.BackupDir())
	s.Checks++
	if before != after {
		s.diverge("foreign-backup", nil, "backup location untouched", fmt.Sprintf("location changed (refusal: %v)", refusal), "")
	}
	return nil
}

// restoreAndCheck loads the backup location into an empty store and compares every read API of
// the restored hub with the answers the specification logged when the last backup ran.
func (s *Session) restoreAndCheck(obs *Obs) error {
	defer os.RemoveAll(s.BackupDir())
	return s.restoreAndCompare(obs)
}

// restoreAndCompare leaves the backup location as it is.
func (s *Session) restoreAndCompare(obs *Obs) error {
	dir := s.W.Dir + "_restored_" + s.Tag
	_ = os.RemoveAll(dir)
	db, err := badger.Open(badger.DefaultOptions(dir).WithLogger(nil))
	if err != nil {
		return err
	}
	f, err := os.Open(filepath.Join(s.BackupDir(), "datahub-backup.kv"))
	if err != nil {
		db.Close()
		return fmt.Errorf("restore: %w", err)
	}
	lerr := db.Load(f, 16)
	f.Close()
	if cerr := db.Close(); cerr != nil {
		return cerr
	}
	if lerr != nil {
		s.diverge("restore", nil, "backup file loads", lerr.Error(), "")
		return nil
	}
	w2, err := OpenWorld(dir)
	if err != nil {
		return err
	}
	defer w2.Destroy()
	s2 := &Session{W: w2, H: s.H, Tag: s.Tag, Table: s.Table, Ad: s.Ad, clock: obs.Clock, NoAt: s.NoAt,
		after: s.after, commit: s.commit, ids: s.ids, tokens: map[int]uint64{}}
	if w2.EntP != s.W.EntP || w2.PredP != s.W.PredP || w2.PropP != s.W.PropP {
		s.diverge("restore", nil, "namespace prefixes of the source hub", []string{w2.EntP, w2.PredP, w2.PropP}, "")
		return nil
	}
	// the restored hub stands at the instant of the backup: later instants are not asked
	cut := *obs
	if err := s2.CheckObs(&cut); err != nil {
		return fmt.Errorf("restored hub: %w", err)
	}
	s.Checks += s2.Checks
	for _, d := range s2.Divs {
		d.Kind = "restored:" + d.Kind
		s.Divs = append(s.Divs, d)
	}
	return nil
}
