package engine

import (
	"crypto/sha1"
	"encoding/hex"
	"fmt"
	"os"
	"os/exec"
	"path/filepath"
	"sync"
	"time"

	"github.com/bamzi/jobrunner"
	"github.com/dgraph-io/badger/v4"

	"github.com/mimiro-io/datahub/internal/server"
)

var cronOnce sync.Once

// BackupDir is the backup location of this session (one location per behaviour, so that many
// behaviours can share one store).
func (s *Session) BackupDir() string { return s.W.Dir + "_backup_" + s.Tag }

// rsyncMode: a stage run with VERIF_RSYNC=1 backs up with the rsync mode (a copy of the store directory) instead
// of the native one, if rsync is installed. (Every copy is 2.3 GB of disk as the product invokes rsync: the stage
// is small and removes each copy as soon as it was compared.)
func (s *Session) rsyncMode() bool {
	if os.Getenv("VERIF_RSYNC") != "1" {
		return false
	}
	_, err := exec.LookPath("rsync")
	return err == nil
}

func newBackupManager(w *World, location string, rsync bool) (*server.BackupManager, error) {
	cronOnce.Do(func() { jobrunner.Start() }) // NewBackupManager registers itself with the global cron
	env := *w.Env
	env.BackupLocation = location
	env.BackupSchedule = "0 0 1 1 *" // never fires during a check; runs are triggered by the behaviour
	env.BackupRsync = rsync
	bm, err := server.NewBackupManager(w.Store, &env)
	// the global cron would keep every manager (and with it every store ever opened) alive
	for _, e := range jobrunner.MainCron.Entries() {
		jobrunner.MainCron.Remove(e.ID)
	}
	return bm, err
}

func runBackup(bm *server.BackupManager) (err error) {
	defer func() {
		if r := recover(); r != nil {
			err = fmt.Errorf("backup run panicked: %v", r)
		}
	}()
	bm.Run()
	return nil
}

// backup performs one backup run of the hub (native mode) into the world's backup location.
func (s *Session) backup() error {
	if s.bm == nil || s.bmWorldGen != s.W.Gen {
		// first run, or the hub was restarted since: a new manager that reloads its cursor
		bm, err := newBackupManager(s.W, s.BackupDir(), s.rsyncMode())
		if err != nil {
			return err
		}
		s.bm, s.bmWorldGen = bm, s.W.Gen
	}
	return runBackup(s.bm)
}

func dirDigest(dir string) string {
	h := sha1.New()
	entries, _ := os.ReadDir(dir)
	for _, e := range entries {
		b, _ := os.ReadFile(filepath.Join(dir, e.Name()))
		fmt.Fprintf(h, "%s:%d:", e.Name(), len(b))
		h.Write(b)
	}
	return hex.EncodeToString(h.Sum(nil))
}

// foreignBackup lets a different store attempt a backup run into this hub's backup location;
// the run must be refused and the location must stay byte-identical.
func (s *Session) foreignBackup() error {
	before := dirDigest(s.BackupDir())
	w2, err := OpenWorld(s.W.Dir + "_foreign_" + s.Tag)
	if err != nil {
		return err
	}
	defer w2.Destroy()
	ds, err := w2.Dsm.CreateDataset("intruder", nil)
	if err != nil {
		return err
	}
	if err := ds.StoreEntities([]*server.Entity{server.NewEntity(w2.EntP+":intruder", 0)}); err != nil {
		return err
	}
	bm, err := newBackupManager(w2, s.BackupDir(), s.rsyncMode())
	if err != nil {
		return err
	}
	refusal := runBackup(bm)
	after := dirDigest(s.BackupDir())
	s.Checks++
	if before != after {
		s.diverge("foreign-backup", nil, "backup location untouched", fmt.Sprintf("location changed (refusal: %v)", refusal), "")
	}
	return nil
}

// restoreAndCheck loads the backup location into an empty store and compares every read API of
// the restored hub with the answers the specification logged when the last backup ran.
func (s *Session) restoreAndCheck(obs *Obs) error {
	defer os.RemoveAll(s.BackupDir())
	return s.restoreAndCompare(obs)
}

// restoreAndCompare leaves the backup location as it is.
func (s *Session) restoreAndCompare(obs *Obs) error {
	dir := s.W.Dir + "_restored_" + s.Tag
	_ = os.RemoveAll(dir)
	if s.rsyncMode() {
		// the location holds a copy of the store directory (under its own name): a hub is started on a copy of it
		src := filepath.Join(s.BackupDir(), filepath.Base(s.W.Dir))
		if out, err := exec.Command("cp", "-r", "--sparse=always", src, dir).CombinedOutput(); err != nil {
			s.diverge("restore", nil, "the rsync copy of the store directory exists", fmt.Sprintf("%v %s", err, out), "")
			return nil
		}
		_ = os.Remove(filepath.Join(dir, "LOCK"))
		return s.compareRestored(dir, obs)
	}
	db, err := badger.Open(badger.DefaultOptions(dir).WithLogger(nil))
	if err != nil {
		return err
	}
	f, err := os.Open(filepath.Join(s.BackupDir(), "datahub-backup.kv"))
	if err != nil {
		db.Close()
		return fmt.Errorf("restore: %w", err)
	}
	lerr := db.Load(f, 16)
	f.Close()
	if cerr := db.Close(); cerr != nil {
		return cerr
	}
	if lerr != nil {
		s.diverge("restore", nil, "backup file loads", lerr.Error(), "")
		return nil
	}
	return s.compareRestored(dir, obs)
}

// compareRestored starts a hub on dir and compares its answers with obs; then the restored hub is written to.
func (s *Session) compareRestored(dir string, obs *Obs) error {
	type opened struct {
		w   *World
		err error
	}
	ch := make(chan opened, 1)
	go func() {
		w, err := OpenWorld(dir)
		ch <- opened{w, err}
	}()
	var w2 *World
	select {
	case o := <-ch:
		if o.err != nil {
			s.diverge("restore", nil, "a hub starts on the restored directory", o.err.Error(), "")
			return nil
		}
		w2 = o.w
	case <-time.After(5 * time.Minute):
		// not a verdict: the harness cannot tell a hub that never starts from a machine that is too slow
		return fmt.Errorf("restore: opening %s did not finish within 5 minutes", dir)
	}
	defer w2.Destroy()
	s2 := &Session{W: w2, H: s.H, Tag: s.Tag, Table: s.Table, Ad: s.Ad, clock: obs.Clock, NoAt: s.NoAt,
		after: s.after, commit: s.commit, ids: s.ids, tokens: map[int]uint64{}}
	if w2.EntP != s.W.EntP || w2.PredP != s.W.PredP || w2.PropP != s.W.PropP {
		s.diverge("restore", nil, "namespace prefixes of the source hub", []string{w2.EntP, w2.PredP, w2.PropP}, "")
		return nil
	}
	// the restored hub stands at the instant of the backup: later instants are not asked
	cut := *obs
	if err := s2.CheckObs(&cut); err != nil {
		return fmt.Errorf("restored hub: %w", err)
	}
	if len(s2.Divs) == 0 {
		// the restored hub is a hub: it accepts writes, positions and internal ids continue after the restored data
		r := &Result{}
		s2.followUp(r)
		for _, d := range r.Divs {
			s2.Divs = append(s2.Divs, d)
		}
		if r.Err != "" {
			s2.diverge("follow-up", nil, "the restored hub accepts writes", r.Err, "")
		}
	}
	s.Checks += s2.Checks
	for _, d := range s2.Divs {
		d.Kind = "restored:" + d.Kind
		s.Divs = append(s.Divs, d)
	}
	return nil
}

// followUp writes one more entity to every live dataset of the session and checks that the feed
// grows by exactly that entry at its end with a larger token.
func (s *Session) followUp(r *Result) {
	// the recovered hub creates a dataset: a name never used, an internal id nobody has, born empty, and what is
	// written to it stays in it (no reuse of internal identifiers)
	fresh := "followup-" + s.Tag
	if nd, err := s.W.Dsm.CreateDataset(fresh, nil); err != nil || nd == nil {
		r.Divs = append(r.Divs, Divergence{Kind: "follow-up-create", Adapter: "go", Query: fresh, Expected: "the recovered hub creates datasets", Actual: fmt.Sprint(err)})
		return
	} else {
		s.Checks += 2
		for _, dn := range s.W.Dsm.GetDatasetNames() {
			if od := s.W.Dsm.GetDataset(dn.Name); od != nil && dn.Name != fresh && od.InternalID == nd.InternalID {
				r.Divs = append(r.Divs, Divergence{Kind: "follow-up-create", Adapter: "go", Query: fresh,
					Expected: "an internal dataset id nobody has", Actual: fmt.Sprintf("id %d is also the id of %s", nd.InternalID, dn.Name)})
				return
			}
		}
		if res, err := nd.GetEntities("", 0); err != nil || len(res.Entities) != 0 {
			r.Divs = append(r.Divs, Divergence{Kind: "follow-up-create", Adapter: "go", Query: fresh, Expected: "a new dataset is empty", Actual: fmt.Sprint(len(res.Entities), err)})
			return
		}
		if ch, err := nd.GetChanges(0, 0, false); err != nil || len(ch.Entities) != 0 {
			r.Divs = append(r.Divs, Divergence{Kind: "follow-up-create", Adapter: "go", Query: fresh, Expected: "a new dataset has an empty change log", Actual: fmt.Sprint(len(ch.Entities), err)})
			return
		}
	}
	for _, n := range s.H.Ds {
		real := s.DsReal(n)
		if !s.Ad.Exists(s, real) {
			continue
		}
		before, tokBefore, err := s.Ad.Changes(s, real, 0, 0, false)
		if err != nil {
			r.Err = "follow-up: " + err.Error()
			return
		}
		ent := s.Concrete(s.H.Ent[0], 1)
		ent.ID = s.W.EntP + ":followup-" + s.Tag
		if err := s.Ad.Store(s, real, []*server.Entity{ent}); err != nil {
			r.Divs = append(r.Divs, Divergence{Kind: "follow-up-write", Adapter: "go", Query: n, Expected: "the recovered hub accepts writes", Actual: err.Error()})
			return
		}
		after, tokAfter, err := s.Ad.Changes(s, real, 0, 0, false)
		if err != nil {
			r.Err = "follow-up: " + err.Error()
			return
		}
		s.Checks++
		if len(after) != len(before)+1 || !sameSeq(before, after[:len(before)]) || tokAfter <= tokBefore {
			r.Divs = append(r.Divs, Divergence{Kind: "follow-up-write", Adapter: "go", Query: n,
				Expected: "feed grows by one entry at its end, token increases", Actual: map[string]any{"before": before, "after": after, "tokens": []uint64{tokBefore, tokAfter}}})
			return
		}
	}
}
