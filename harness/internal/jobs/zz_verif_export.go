//go:build verif

package jobs

import (
	"context"
	"encoding/json"
	"errors"
	"fmt"
	"sort"
	"sync"
	"time"

	"github.com/mimiro-io/datahub/internal/jobs/source"

	"github.com/mimiro-io/datahub/internal/server"
)

// Overlay-only exports for the /verif harness (not part of the product).

// VerifFault tells the recording sink where to inject a fault:
// Kind "before": reject the N-th batch; "after": fail after the inner sink accepted the N-th batch
// (the window between sink write and token store); "kill": cancel the run after the N-th batch.
type VerifFault struct {
	Kind string
	N    int
}

// VerifRun is what one synchronous run of a job did.
type VerifRun struct {
	Calls     [][]*server.Entity // batches handed to the sink, in order
	LastError string
	Processed int
	Token     string
	HasResult bool
	Panic     string // non-empty if the run panicked in the calling goroutine
	Running   int    // run slots still occupied after the run
	TicketsI  int
	TicketsF  int
}

type verifSink struct {
	inner  Sink
	fault  VerifFault
	jobID  string
	runner *Runner
	mu     sync.Mutex
	n      int
	calls  [][]*server.Entity
}

func (v *verifSink) GetConfig() map[string]interface{}  { return v.inner.GetConfig() }
func (v *verifSink) startFullSync(runner *Runner) error { return v.inner.startFullSync(runner) }
func (v *verifSink) endFullSync(ctx context.Context, runner *Runner) error {
	return v.inner.endFullSync(ctx, runner)
}

func (v *verifSink) processEntities(runner *Runner, entities []*server.Entity) error {
	v.mu.Lock()
	v.n++
	n := v.n
	cp := make([]*server.Entity, len(entities))
	for i, e := range entities {
		c := *e
		cp[i] = &c
	}
	v.calls = append(v.calls, cp)
	v.mu.Unlock()
	if v.fault.Kind == "before" && v.fault.N == n {
		return errors.New("verif: sink rejects batch")
	}
	err := v.inner.processEntities(runner, entities)
	if err != nil {
		return err
	}
	if v.fault.Kind == "after" && v.fault.N == n {
		return errors.New("verif: run dies after sink write")
	}
	if v.fault.Kind == "kill" && v.fault.N == n {
		if rs := runner.raffle.runningJob(v.jobID); rs != nil {
			rs.cancel()
		}
	}
	return nil
}

// VerifRunSync builds the pipeline of cfg for jobType exactly as the scheduler does, puts a
// recording / fault-injecting sink around the configured sink and runs the job synchronously
// through job.Run() (ticket, error handling, result recording included).
func (s *Scheduler) VerifRunSync(cfg *JobConfiguration, jobType string, fault VerifFault) (*VerifRun, error) {
	pipeline, err := s.toPipeline(cfg, jobType)
	if err != nil {
		return nil, err
	}
	rec := &verifSink{inner: pipeline.spec().sink, fault: fault, jobID: cfg.ID, runner: s.Runner}
	pipeline.spec().sink = rec
	j := &job{id: cfg.ID, title: cfg.Title, pipeline: pipeline, runner: s.Runner, dsm: s.DatasetManager}
	_ = s.Runner.store.DeleteObject(server.JobResultIndex, cfg.ID)
	out := &VerifRun{}
	func() {
		defer func() {
			if r := recover(); r != nil {
				out.Panic = fmt.Sprint(r)
			}
		}()
		j.Run()
	}()
	out.Calls = rec.calls
	res := &jobResult{}
	if err := s.Store.GetObject(server.JobResultIndex, cfg.ID, res); err == nil && res.ID != "" {
		out.HasResult = true
		out.LastError = res.LastError
		out.Processed = res.Processed
	}
	st, err := s.GetJobState(cfg.ID)
	if err == nil && st != nil {
		out.Token = st.ContinuationToken
	}
	s.Runner.raffle.runningMu.Lock()
	out.Running = len(s.Runner.raffle.runningJobs)
	out.TicketsI, out.TicketsF = s.Runner.raffle.ticketsIncr, s.Runner.raffle.ticketsFull
	s.Runner.raffle.runningMu.Unlock()
	return out, nil
}

// VerifSink is the sink of a job configuration, driven call by call (what a fullsync pipeline does
// to its sink: startFullSync, processEntities*, endFullSync).
type VerifSink struct {
	s     Sink
	sched *Scheduler
}

func (s *Scheduler) VerifSinkFor(cfg *JobConfiguration) (*VerifSink, error) {
	sink, err := s.parseSink(cfg)
	if err != nil {
		return nil, err
	}
	return &VerifSink{s: sink, sched: s}, nil
}
func (v *VerifSink) Start() error { return v.s.startFullSync(v.sched.Runner) }
func (v *VerifSink) Process(entities []*server.Entity) error {
	return v.s.processEntities(v.sched.Runner, entities)
}
func (v *VerifSink) End() error { return v.s.endFullSync(context.Background(), v.sched.Runner) }

// ---- C17: jobs with error handlers and a scripted sink ----

type verifScriptedSink struct {
	inner       Sink
	failIDs     map[string]bool
	rejectFirst int // reject every batch during the first N calls (transient failure)
	killOnCall  int // cancel the run in the N-th call (0 = never)
	jobID       string
	mu          sync.Mutex
	calls       int
	delivered   []string
}

func (v *verifScriptedSink) GetConfig() map[string]interface{} { return v.inner.GetConfig() }
func (v *verifScriptedSink) startFullSync(r *Runner) error     { return v.inner.startFullSync(r) }
func (v *verifScriptedSink) endFullSync(ctx context.Context, r *Runner) error {
	return v.inner.endFullSync(ctx, r)
}
func (v *verifScriptedSink) processEntities(runner *Runner, entities []*server.Entity) error {
	v.mu.Lock()
	v.calls++
	n := v.calls
	v.mu.Unlock()
	if v.killOnCall == n {
		if rs := runner.raffle.runningJob(v.jobID); rs != nil {
			rs.cancel()
		}
	}
	if n <= v.rejectFirst {
		return errors.New("verif: sink unavailable")
	}
	for _, e := range entities {
		if v.failIDs[e.ID] {
			return errors.New("verif: sink rejects " + e.ID)
		}
	}
	if err := v.inner.processEntities(runner, entities); err != nil {
		return err
	}
	v.mu.Lock()
	for _, e := range entities {
		v.delivered = append(v.delivered, e.ID)
	}
	v.mu.Unlock()
	return nil
}

// VerifHandledJob is a scheduled-style job (built like AddJob builds it, error handlers included)
// whose sink is scripted.
type VerifHandledJob struct {
	j    *job
	sink *verifScriptedSink
	s    *Scheduler
}

func (s *Scheduler) VerifHandledJobFor(cfg *JobConfiguration, failIDs []string, rejectFirst, killOnCall int) (*VerifHandledJob, error) {
	if err := s.verify(cfg); err != nil {
		return nil, err
	}
	js, err := s.toTriggeredJobs(cfg)
	if err != nil || len(js) == 0 {
		return nil, fmt.Errorf("no job built: %v", err)
	}
	j := js[0]
	sc := &verifScriptedSink{inner: j.pipeline.spec().sink, failIDs: map[string]bool{}, rejectFirst: rejectFirst, killOnCall: killOnCall, jobID: cfg.ID}
	for _, id := range failIDs {
		sc.failIDs[id] = true
	}
	j.pipeline.spec().sink = sc
	return &VerifHandledJob{j: j, sink: sc, s: s}, nil
}

// Run executes the job once, synchronously (re-runs scheduled by a reRun handler happen later on
// their own timer).
func (h *VerifHandledJob) Run() (panicked string) {
	defer func() {
		if r := recover(); r != nil {
			panicked = fmt.Sprint(r)
		}
	}()
	h.j.Run()
	return ""
}
func (h *VerifHandledJob) Calls() int {
	h.sink.mu.Lock()
	defer h.sink.mu.Unlock()
	return h.sink.calls
}
func (h *VerifHandledJob) Delivered() []string {
	h.sink.mu.Lock()
	defer h.sink.mu.Unlock()
	return append([]string{}, h.sink.delivered...)
}
func (h *VerifHandledJob) Result() (lastError string, processed int, has bool) {
	res := &jobResult{}
	if err := h.s.Store.GetObject(server.JobResultIndex, h.j.id, res); err == nil && res.ID != "" {
		return res.LastError, res.Processed, true
	}
	return "", 0, false
}
func (h *VerifHandledJob) Token() string {
	st, err := h.s.GetJobState(h.j.id)
	if err != nil || st == nil {
		return ""
	}
	return st.ContinuationToken
}

// Idle reports whether no run of THIS job id holds a slot.
func (h *VerifHandledJob) Idle() bool {
	h.s.Runner.raffle.runningMu.Lock()
	defer h.s.Runner.raffle.runningMu.Unlock()
	_, busy := h.s.Runner.raffle.runningJobs[h.j.id]
	return !busy
}

// ---- C11: probes, triggered jobs as the scheduler builds them, slot state ----

// VerifProbe observes runs from inside the jobs' sources.
type VerifProbe interface {
	Enter(job string, full bool)
	Exit(job string)
}

type verifProbedSource struct {
	inner source.Source
	probe VerifProbe
	job   string
	full  bool
	delay time.Duration
}

func (p *verifProbedSource) GetConfig() map[string]interface{} { return p.inner.GetConfig() }
func (p *verifProbedSource) StartFullSync()                    { p.inner.StartFullSync() }
func (p *verifProbedSource) EndFullSync()                      { p.inner.EndFullSync() }
func (p *verifProbedSource) ReadEntities(ctx context.Context, since source.DatasetContinuation, batchSize int,
	processEntities func([]*server.Entity, source.DatasetContinuation) error) error {
	p.probe.Enter(p.job, p.full)
	defer p.probe.Exit(p.job)
	time.Sleep(p.delay)
	return p.inner.ReadEntities(ctx, since, batchSize, processEntities)
}

func (s *Scheduler) probe(j *job, probe VerifProbe, delay time.Duration) {
	j.pipeline.spec().source = &verifProbedSource{inner: j.pipeline.spec().source, probe: probe, job: j.id,
		full: j.pipeline.isFullSync(), delay: delay}
}

// VerifAddProbedJob does what AddJob does (verify, build the triggered jobs, persist the
// configuration, register cron / event triggers) with a probe inside every job's source.
func (s *Scheduler) VerifAddProbedJob(cfg *JobConfiguration, probe VerifProbe, delay time.Duration) error {
	if err := s.verify(cfg); err != nil {
		return err
	}
	js, err := s.toTriggeredJobs(cfg)
	if err != nil {
		return err
	}
	if err := s.Store.StoreObject(server.JobConfigIndex, cfg.ID, cfg); err != nil {
		return err
	}
	for _, j := range js {
		s.probe(j, probe, delay)
		if err := s.Runner.addJob(j); err != nil {
			return err
		}
	}
	return nil
}

// VerifRunProbed does what RunJob does (manual run of a stored configuration) with a probe.
func (s *Scheduler) VerifRunProbed(jobid string, jobType string, probe VerifProbe, delay time.Duration) error {
	cfg, err := s.LoadJob(jobid)
	if err != nil || cfg == nil || cfg.ID == "" {
		return fmt.Errorf("could not load job %s", jobid)
	}
	pipeline, err := s.toPipeline(cfg, jobType)
	if err != nil {
		return err
	}
	j := &job{id: cfg.ID, title: cfg.Title, pipeline: pipeline, runner: s.Runner, dsm: s.DatasetManager}
	s.probe(j, probe, delay)
	if running := s.Runner.raffle.runningJob(cfg.ID); running != nil {
		return fmt.Errorf("job %s already running", jobid)
	}
	s.Runner.startJob(j)
	return nil
}

// VerifSlots reports the run slots.
func (s *Scheduler) VerifSlots() (running, ticketsIncr, ticketsFull int) {
	s.Runner.raffle.runningMu.Lock()
	defer s.Runner.raffle.runningMu.Unlock()
	return len(s.Runner.raffle.runningJobs), s.Runner.raffle.ticketsIncr, s.Runner.raffle.ticketsFull
}

// VerifTriggeredJobs builds the jobs of a configuration exactly as AddJob does (verify +
// toTriggeredJobs: error handlers attached) without registering triggers.
func (s *Scheduler) VerifTriggeredJobs(cfg *JobConfiguration) ([]*VerifHandledJob, error) {
	if err := s.verify(cfg); err != nil {
		return nil, err
	}
	js, err := s.toTriggeredJobs(cfg)
	if err != nil {
		return nil, err
	}
	var out []*VerifHandledJob
	for _, j := range js {
		out = append(out, &VerifHandledJob{j: j, s: s})
	}
	return out, nil
}

// VerifScheduledJobIDs lists the job ids this scheduler has registered with cron (sorted).
func (s *Scheduler) VerifScheduledJobIDs() []string {
	var out []string
	for id, entries := range s.Runner.scheduledJobs {
		if len(entries) > 0 {
			out = append(out, id)
		}
	}
	sort.Strings(out)
	return out
}

// VerifHistoryJSON renders the stored run results (start / end instants removed: they are per run, and
// kept as they are across a restart anyway - they are compared as part of the raw projection).
func (s *Scheduler) VerifHistoryJSON() []string {
	var out []string
	for _, r := range s.GetJobHistory() {
		b, _ := json.Marshal(r)
		out = append(out, string(b))
	}
	sort.Strings(out)
	return out
}

// VerifSource builds the source of a job configuration the way the scheduler does.
func (s *Scheduler) VerifSource(cfg *JobConfiguration) (source.Source, error) {
	return s.parseSource(cfg)
}

// VerifSetJobToken stores a continuation token as the job's sync state (what a pipeline does after a batch).
func (s *Scheduler) VerifSetJobToken(jobID, token string) error {
	return s.Store.StoreObject(server.JobDataIndex, jobID, &SyncJobState{ID: jobID, ContinuationToken: token})
}

// ClearResult removes the stored run result of the job (so that the next run has to store one).
func (h *VerifHandledJob) ClearResult() {
	_ = h.s.Store.DeleteObject(server.JobResultIndex, h.j.id)
}
